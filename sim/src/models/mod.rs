pub mod bigint;
