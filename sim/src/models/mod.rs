pub mod bigint;
pub mod conv;
pub mod gen;
pub mod gfp;
pub mod rd;
pub mod stype;
