//! Own arbitrary-precision integers on little-endian u32 limbs, and the
//! (S)LEB128 arithmetic of the spec written against them. Shares no code with
//! num-bigint or with the crate under test; the bridge to `candid::Nat`/`Int`
//! is decimal text.

use serde::{Deserialize, Serialize};
use std::cmp::Ordering;

#[derive(Clone, Debug, PartialEq, Eq, Default, Hash, PartialOrd, Ord)]
pub struct BigU(pub Vec<u32>);

impl BigU {
    pub fn zero() -> Self {
        BigU(vec![])
    }
    pub fn from_u64(x: u64) -> Self {
        let mut b = BigU(vec![x as u32, (x >> 32) as u32]);
        b.norm();
        b
    }
    pub fn from_u128(x: u128) -> Self {
        let mut b = BigU(vec![x as u32, (x >> 32) as u32, (x >> 64) as u32, (x >> 96) as u32]);
        b.norm();
        b
    }
    fn norm(&mut self) {
        while self.0.last() == Some(&0) {
            self.0.pop();
        }
    }
    pub fn is_zero(&self) -> bool {
        self.0.is_empty()
    }
    pub fn bits(&self) -> usize {
        match self.0.last() {
            None => 0,
            Some(top) => (self.0.len() - 1) * 32 + (32 - top.leading_zeros() as usize),
        }
    }
    pub fn bit(&self, i: usize) -> bool {
        let l = i / 32;
        l < self.0.len() && (self.0[l] >> (i % 32)) & 1 == 1
    }
    pub fn set_bit(&mut self, i: usize) {
        let l = i / 32;
        if self.0.len() <= l {
            self.0.resize(l + 1, 0);
        }
        self.0[l] |= 1 << (i % 32);
    }
    pub fn pow2(k: usize) -> Self {
        let mut b = BigU::zero();
        b.set_bit(k);
        b
    }
    pub fn cmp_(&self, o: &BigU) -> Ordering {
        if self.0.len() != o.0.len() {
            return self.0.len().cmp(&o.0.len());
        }
        for i in (0..self.0.len()).rev() {
            if self.0[i] != o.0[i] {
                return self.0[i].cmp(&o.0[i]);
            }
        }
        Ordering::Equal
    }
    pub fn add(&self, o: &BigU) -> BigU {
        let n = self.0.len().max(o.0.len());
        let mut r = Vec::with_capacity(n + 1);
        let mut c = 0u64;
        for i in 0..n {
            let s = *self.0.get(i).unwrap_or(&0) as u64 + *o.0.get(i).unwrap_or(&0) as u64 + c;
            r.push(s as u32);
            c = s >> 32;
        }
        if c > 0 {
            r.push(c as u32);
        }
        let mut b = BigU(r);
        b.norm();
        b
    }
    /// self - o, requires self >= o
    pub fn sub(&self, o: &BigU) -> BigU {
        assert!(self.cmp_(o) != Ordering::Less, "BigU::sub underflow");
        let mut r = Vec::with_capacity(self.0.len());
        let mut borrow = 0i64;
        for i in 0..self.0.len() {
            let mut d = self.0[i] as i64 - *o.0.get(i).unwrap_or(&0) as i64 - borrow;
            if d < 0 {
                d += 1 << 32;
                borrow = 1;
            } else {
                borrow = 0;
            }
            r.push(d as u32);
        }
        let mut b = BigU(r);
        b.norm();
        b
    }
    pub fn mul_small(&self, m: u32) -> BigU {
        let mut r = Vec::with_capacity(self.0.len() + 1);
        let mut c = 0u64;
        for x in &self.0 {
            let p = *x as u64 * m as u64 + c;
            r.push(p as u32);
            c = p >> 32;
        }
        if c > 0 {
            r.push(c as u32);
        }
        let mut b = BigU(r);
        b.norm();
        b
    }
    pub fn add_small(&self, a: u32) -> BigU {
        self.add(&BigU::from_u64(a as u64))
    }
    /// divide in place by a small number, return remainder
    fn divrem_small(&mut self, d: u32) -> u32 {
        let mut rem = 0u64;
        for i in (0..self.0.len()).rev() {
            let cur = (rem << 32) | self.0[i] as u64;
            self.0[i] = (cur / d as u64) as u32;
            rem = cur % d as u64;
        }
        self.norm();
        rem as u32
    }
    pub fn to_decimal(&self) -> String {
        if self.is_zero() {
            return "0".into();
        }
        let mut parts = Vec::new();
        let mut x = self.clone();
        while !x.is_zero() {
            parts.push(x.divrem_small(1_000_000_000));
        }
        let mut s = format!("{}", parts.pop().unwrap());
        while let Some(p) = parts.pop() {
            s.push_str(&format!("{p:09}"));
        }
        s
    }
    pub fn from_decimal(s: &str) -> Option<BigU> {
        if s.is_empty() {
            return None;
        }
        let mut r = BigU::zero();
        for ch in s.bytes() {
            if !ch.is_ascii_digit() {
                return None;
            }
            r = r.mul_small(10).add_small((ch - b'0') as u32);
        }
        Some(r)
    }
    pub fn to_u128(&self) -> Option<u128> {
        if self.bits() > 128 {
            return None;
        }
        let mut v = 0u128;
        for (i, l) in self.0.iter().enumerate() {
            v |= (*l as u128) << (32 * i);
        }
        Some(v)
    }
    /// Value of a sequence of 7-bit groups, least significant first.
    pub fn from_groups7(groups: &[u8]) -> BigU {
        let mut b = BigU::zero();
        for (i, g) in groups.iter().enumerate() {
            for k in 0..7 {
                if (g >> k) & 1 == 1 {
                    b.set_bit(7 * i + k);
                }
            }
        }
        b.norm();
        b
    }
    /// n groups of 7 bits (zero padded)
    pub fn to_groups7(&self, n: usize) -> Vec<u8> {
        (0..n)
            .map(|i| {
                let mut g = 0u8;
                for k in 0..7 {
                    if self.bit(7 * i + k) {
                        g |= 1 << k;
                    }
                }
                g
            })
            .collect()
    }
}

/// Signed big integer: sign and magnitude; zero is never negative.
#[derive(Clone, Debug, PartialEq, Eq, Hash, PartialOrd, Ord)]
pub struct BigI {
    pub neg: bool,
    pub mag: BigU,
}
impl BigI {
    pub fn new(neg: bool, mag: BigU) -> Self {
        BigI { neg: neg && !mag.is_zero(), mag }
    }
    pub fn from_i128(x: i128) -> Self {
        BigI::new(x < 0, BigU::from_u128(x.unsigned_abs()))
    }
    pub fn to_decimal(&self) -> String {
        if self.neg {
            format!("-{}", self.mag.to_decimal())
        } else {
            self.mag.to_decimal()
        }
    }
    pub fn from_decimal(s: &str) -> Option<BigI> {
        match s.strip_prefix('-') {
            Some(r) => Some(BigI::new(true, BigU::from_decimal(r)?)),
            None => Some(BigI::new(false, BigU::from_decimal(s)?)),
        }
    }
    pub fn to_i128(&self) -> Option<i128> {
        if self.neg {
            // |v| <= 2^127
            if self.mag.cmp_(&BigU::pow2(127)) == Ordering::Greater {
                return None;
            }
            let m = self.mag.to_u128()?;
            Some((m as i128).wrapping_neg())
        } else {
            if self.mag.bits() > 127 {
                return None;
            }
            Some(self.mag.to_u128()? as i128)
        }
    }
}

// ---------------------------------------------------------------- LEB128 per spec

/// Split a byte string at its first terminator. Returns the groups (7 bit
/// payloads) of the terminated prefix and its length, or None if no byte has
/// the continuation bit clear.
pub fn leb_prefix(bytes: &[u8]) -> Option<(Vec<u8>, usize)> {
    let mut groups = Vec::new();
    for (i, b) in bytes.iter().enumerate() {
        groups.push(b & 0x7f);
        if b & 0x80 == 0 {
            return Some((groups, i + 1));
        }
    }
    None
}

/// Mathematical value of a terminated LEB128 string (padded or not).
pub fn leb_value(bytes: &[u8]) -> Option<(BigU, usize)> {
    let (g, n) = leb_prefix(bytes)?;
    Some((BigU::from_groups7(&g), n))
}

/// Mathematical value of a terminated SLEB128 string (padded or not).
pub fn sleb_value(bytes: &[u8]) -> Option<(BigI, usize)> {
    let (g, n) = leb_prefix(bytes)?;
    let mag = BigU::from_groups7(&g);
    let negative = g[g.len() - 1] & 0x40 != 0;
    if negative {
        // value = mag - 2^(7n)
        let m = BigU::pow2(7 * g.len()).sub(&mag);
        Some((BigI::new(true, m), n))
    } else {
        Some((BigI::new(false, mag), n))
    }
}

fn groups_to_bytes(g: &[u8]) -> Vec<u8> {
    let mut out = Vec::with_capacity(g.len());
    for (i, x) in g.iter().enumerate() {
        out.push(if i + 1 < g.len() { x | 0x80 } else { *x });
    }
    out
}

/// Minimal LEB128 of a natural number.
pub fn leb_min(v: &BigU) -> Vec<u8> {
    let n = v.bits().div_ceil(7).max(1);
    groups_to_bytes(&v.to_groups7(n))
}

/// Minimal SLEB128 of an integer.
pub fn sleb_min(v: &BigI) -> Vec<u8> {
    if !v.neg {
        // need v < 2^(7n-1)
        let n = v.mag.bits() / 7 + 1;
        groups_to_bytes(&v.mag.to_groups7(n))
    } else {
        // need |v| <= 2^(7n-1), i.e. bits(|v|-1) <= 7n-1
        let m1 = v.mag.sub(&BigU::from_u64(1));
        let n = m1.bits() / 7 + 1;
        let tw = BigU::pow2(7 * n).sub(&v.mag);
        groups_to_bytes(&tw.to_groups7(n))
    }
}

pub fn fits_u128(v: &BigU) -> bool {
    v.bits() <= 128
}
pub fn fits_u64(v: &BigU) -> bool {
    v.bits() <= 64
}
pub fn fits_i128(v: &BigI) -> bool {
    v.to_i128().is_some()
}

/// A number as it is stored in scenarios / abstract values: decimal text.
#[derive(Clone, Debug, PartialEq, Eq, Hash, Serialize, Deserialize, PartialOrd, Ord)]
pub struct Dec(pub String);

#[cfg(test)]
mod tests {
    use super::*;
    #[test]
    fn leb_roundtrip_small() {
        for x in [0u128, 1, 63, 64, 127, 128, 300, u64::MAX as u128, u128::MAX, 1 << 63, 1 << 64, 624485] {
            let b = BigU::from_u128(x);
            let e = leb_min(&b);
            let (v, n) = leb_value(&e).unwrap();
            assert_eq!(n, e.len());
            assert_eq!(v, b);
            assert_eq!(b.to_decimal(), x.to_string());
            assert_eq!(BigU::from_decimal(&x.to_string()).unwrap(), b);
        }
        assert_eq!(leb_min(&BigU::from_u64(624485)), vec![0xE5, 0x8E, 0x26]);
    }
    #[test]
    fn sleb_roundtrip_small() {
        for x in [0i128, 1, -1, 63, 64, -64, -65, 127, 128, -128, -129, i64::MAX as i128, i64::MIN as i128, i128::MAX, i128::MIN, -123456] {
            let b = BigI::from_i128(x);
            let e = sleb_min(&b);
            let (v, n) = sleb_value(&e).unwrap();
            assert_eq!(n, e.len());
            assert_eq!(v, b, "x={x}");
            assert_eq!(b.to_decimal(), x.to_string());
            assert_eq!(b.to_i128(), Some(x));
        }
        assert_eq!(sleb_min(&BigI::from_i128(-123456)), vec![0xC0, 0xBB, 0x78]);
        assert_eq!(sleb_min(&BigI::from_i128(-64)), vec![0x40]);
        assert_eq!(sleb_min(&BigI::from_i128(64)), vec![0xC0, 0x00]);
    }
}
