//! Harness-side types (`SType`) and abstract values (`AV`), written from
//! spec/Candid.md and sharing no code with the crate under test.

use serde::{Deserialize, Serialize};
use std::collections::{BTreeMap, BTreeSet};

#[derive(Clone, Copy, Debug, PartialEq, Eq, Hash, PartialOrd, Ord, Serialize, Deserialize)]
pub enum Prim {
    Null,
    Bool,
    Nat,
    Int,
    Nat8,
    Nat16,
    Nat32,
    Nat64,
    Int8,
    Int16,
    Int32,
    Int64,
    Float32,
    Float64,
    Text,
    Reserved,
    Empty,
    Principal,
}
impl Prim {
    pub const ALL: [Prim; 18] = [
        Prim::Null,
        Prim::Bool,
        Prim::Nat,
        Prim::Int,
        Prim::Nat8,
        Prim::Nat16,
        Prim::Nat32,
        Prim::Nat64,
        Prim::Int8,
        Prim::Int16,
        Prim::Int32,
        Prim::Int64,
        Prim::Float32,
        Prim::Float64,
        Prim::Text,
        Prim::Reserved,
        Prim::Empty,
        Prim::Principal,
    ];
    /// opcode of the binary format (spec, "Types")
    pub fn opcode(&self) -> i64 {
        match self {
            Prim::Null => -1,
            Prim::Bool => -2,
            Prim::Nat => -3,
            Prim::Int => -4,
            Prim::Nat8 => -5,
            Prim::Nat16 => -6,
            Prim::Nat32 => -7,
            Prim::Nat64 => -8,
            Prim::Int8 => -9,
            Prim::Int16 => -10,
            Prim::Int32 => -11,
            Prim::Int64 => -12,
            Prim::Float32 => -13,
            Prim::Float64 => -14,
            Prim::Text => -15,
            Prim::Reserved => -16,
            Prim::Empty => -17,
            Prim::Principal => -24,
        }
    }
    pub fn from_opcode(op: i64) -> Option<Prim> {
        Prim::ALL.iter().copied().find(|p| p.opcode() == op)
    }
    pub fn name(&self) -> &'static str {
        match self {
            Prim::Null => "null",
            Prim::Bool => "bool",
            Prim::Nat => "nat",
            Prim::Int => "int",
            Prim::Nat8 => "nat8",
            Prim::Nat16 => "nat16",
            Prim::Nat32 => "nat32",
            Prim::Nat64 => "nat64",
            Prim::Int8 => "int8",
            Prim::Int16 => "int16",
            Prim::Int32 => "int32",
            Prim::Int64 => "int64",
            Prim::Float32 => "float32",
            Prim::Float64 => "float64",
            Prim::Text => "text",
            Prim::Reserved => "reserved",
            Prim::Empty => "empty",
            Prim::Principal => "principal",
        }
    }
}

/// spec "Symbolic Field Ids": hash(id) = ( Sum_(i=0..k) utf8(id)[i] * 223^(k-i) ) mod 2^32
pub fn own_hash(s: &str) -> u32 {
    let mut h: u32 = 0;
    for b in s.as_bytes() {
        h = h.wrapping_mul(223).wrapping_add(*b as u32);
    }
    h
}

#[derive(Clone, Debug, PartialEq, Eq, Hash, PartialOrd, Ord, Serialize, Deserialize)]
pub enum SLabel {
    Id(u32),
    Named(String),
}
impl SLabel {
    pub fn id(&self) -> u32 {
        match self {
            SLabel::Id(n) => *n,
            SLabel::Named(s) => own_hash(s),
        }
    }
}

#[derive(Clone, Copy, Debug, PartialEq, Eq, Hash, PartialOrd, Ord, Serialize, Deserialize)]
pub enum Mode {
    Update,
    Query,
    Oneway,
    CompositeQuery,
}

#[derive(Clone, Debug, PartialEq, Eq, Hash, PartialOrd, Ord, Serialize, Deserialize)]
pub enum SType {
    Prim(Prim),
    Opt(Box<SType>),
    Vec(Box<SType>),
    /// fields sorted by id, ids unique
    Record(Vec<(SLabel, SType)>),
    Variant(Vec<(SLabel, SType)>),
    Func { args: Vec<SType>, rets: Vec<SType>, mode: Mode },
    /// methods sorted by name (byte order), each a Func possibly through a Name
    Service(Vec<(String, SType)>),
    Name(String),
}

#[derive(Clone, Debug, PartialEq, Eq, Default, Serialize, Deserialize)]
pub struct SEnv(pub BTreeMap<String, SType>);

pub fn sort_fields(fs: &mut Vec<(SLabel, SType)>) {
    fs.sort_by_key(|(l, _)| l.id());
    fs.dedup_by_key(|(l, _)| l.id());
}
pub fn tuple_of(ts: &[SType]) -> SType {
    SType::Record(ts.iter().enumerate().map(|(i, t)| (SLabel::Id(i as u32), t.clone())).collect())
}

impl SType {
    pub fn prim(p: Prim) -> SType {
        SType::Prim(p)
    }
    pub fn opt(t: SType) -> SType {
        SType::Opt(Box::new(t))
    }
    pub fn vec(t: SType) -> SType {
        SType::Vec(Box::new(t))
    }
    pub fn name(s: &str) -> SType {
        SType::Name(s.to_string())
    }
    pub fn record(mut fs: Vec<(SLabel, SType)>) -> SType {
        sort_fields(&mut fs);
        SType::Record(fs)
    }
    pub fn variant(mut fs: Vec<(SLabel, SType)>) -> SType {
        sort_fields(&mut fs);
        SType::Variant(fs)
    }
    pub fn service(mut ms: Vec<(String, SType)>) -> SType {
        ms.sort_by(|a, b| a.0.as_bytes().cmp(b.0.as_bytes()));
        ms.dedup_by(|a, b| a.0 == b.0);
        SType::Service(ms)
    }
    pub fn nodes(&self) -> usize {
        match self {
            SType::Prim(_) | SType::Name(_) => 1,
            SType::Opt(t) | SType::Vec(t) => 1 + t.nodes(),
            SType::Record(fs) | SType::Variant(fs) => 1 + fs.iter().map(|(_, t)| t.nodes()).sum::<usize>(),
            SType::Func { args, rets, .. } => 1 + args.iter().chain(rets.iter()).map(|t| t.nodes()).sum::<usize>(),
            SType::Service(ms) => 1 + ms.iter().map(|(_, t)| t.nodes()).sum::<usize>(),
        }
    }
}

impl SEnv {
    pub fn new() -> Self {
        SEnv(BTreeMap::new())
    }
    /// Follow names until a non-name type is reached. Environments are closed and
    /// have no name-only cycles by construction; the fuel guards the harness itself.
    pub fn unfold<'a>(&'a self, t: &'a SType) -> &'a SType {
        let mut cur = t;
        let mut fuel = self.0.len() + 2;
        while let SType::Name(n) = cur {
            match self.0.get(n) {
                Some(x) if fuel > 0 => {
                    cur = x;
                    fuel -= 1;
                }
                _ => return cur,
            }
        }
        cur
    }
    pub fn is_optional(&self, t: &SType) -> bool {
        matches!(self.unfold(t), SType::Opt(_) | SType::Prim(Prim::Null) | SType::Prim(Prim::Reserved))
    }

    /// Least fixed point: which definitions / types have at least one finite value?
    pub fn inhabited_names(&self) -> BTreeSet<String> {
        let mut ok: BTreeSet<String> = BTreeSet::new();
        loop {
            let mut changed = false;
            for (n, t) in &self.0 {
                if !ok.contains(n) && self.inh(t, &ok) {
                    ok.insert(n.clone());
                    changed = true;
                }
            }
            if !changed {
                return ok;
            }
        }
    }
    fn inh(&self, t: &SType, ok: &BTreeSet<String>) -> bool {
        match t {
            SType::Prim(Prim::Empty) => false,
            SType::Prim(_) => true,
            SType::Opt(_) | SType::Vec(_) => true,
            SType::Record(fs) => fs.iter().all(|(_, t)| self.inh(t, ok)),
            SType::Variant(fs) => fs.iter().any(|(_, t)| self.inh(t, ok)),
            SType::Func { .. } | SType::Service(_) => true,
            SType::Name(n) => ok.contains(n),
        }
    }
    pub fn inhabited(&self, t: &SType) -> bool {
        let ok = self.inhabited_names();
        self.inh(t, &ok)
    }
    /// Does the type (transitively, through names) mention the given primitive?
    pub fn mentions(&self, t: &SType, p: Prim) -> bool {
        fn go(env: &SEnv, t: &SType, p: Prim, seen: &mut BTreeSet<String>) -> bool {
            match t {
                SType::Prim(q) => *q == p,
                SType::Opt(t) | SType::Vec(t) => go(env, t, p, seen),
                SType::Record(fs) | SType::Variant(fs) => fs.iter().any(|(_, t)| go(env, t, p, seen)),
                SType::Func { args, rets, .. } => args.iter().chain(rets.iter()).any(|t| go(env, t, p, seen)),
                SType::Service(ms) => ms.iter().any(|(_, t)| go(env, t, p, seen)),
                SType::Name(n) => {
                    if !seen.insert(n.clone()) {
                        return false;
                    }
                    env.0.get(n).map(|t| go(env, t, p, seen)).unwrap_or(false)
                }
            }
        }
        go(self, t, p, &mut BTreeSet::new())
    }
}

// ---------------------------------------------------------------- abstract values

#[derive(Clone, Debug, PartialEq, Eq, Hash, Serialize, Deserialize)]
pub enum AV {
    Null,
    Bool(bool),
    /// decimal text
    Nat(String),
    /// decimal text, "-" prefix when negative
    Int(String),
    NatN(u8, u64),
    IntN(u8, i64),
    /// bit patterns, so that NaNs compare bit-for-bit
    F32(u32),
    F64(u64),
    Text(String),
    Reserved,
    Opt(Option<Box<AV>>),
    Vec(Vec<AV>),
    /// (field id, value) sorted by id
    Record(Vec<(u32, AV)>),
    Variant(u32, Box<AV>),
    Principal(Vec<u8>),
    Service(Vec<u8>),
    Func(Vec<u8>, String),
}

impl AV {
    pub fn some(v: AV) -> AV {
        AV::Opt(Some(Box::new(v)))
    }
    pub fn none() -> AV {
        AV::Opt(None)
    }
    pub fn record(mut fs: Vec<(u32, AV)>) -> AV {
        fs.sort_by_key(|(i, _)| *i);
        AV::Record(fs)
    }
    pub fn nodes(&self) -> usize {
        match self {
            AV::Opt(Some(v)) => 1 + v.nodes(),
            AV::Vec(vs) => 1 + vs.iter().map(|v| v.nodes()).sum::<usize>(),
            AV::Record(fs) => 1 + fs.iter().map(|(_, v)| v.nodes()).sum::<usize>(),
            AV::Variant(_, v) => 1 + v.nodes(),
            _ => 1,
        }
    }
    pub fn brief(&self) -> String {
        let s = format!("{self:?}");
        if s.len() > 300 {
            let mut e = 300;
            while !s.is_char_boundary(e) {
                e -= 1;
            }
            format!("{}…", &s[..e])
        } else {
            s
        }
    }
}

/// The typing judgement v : t of the spec (on abstract values).
pub fn has_type(env: &SEnv, v: &AV, t: &SType) -> Result<(), String> {
    let t = env.unfold(t);
    let bad = || Err(format!("{} is not of type {}", v.brief(), show_type(t)));
    match (v, t) {
        (_, SType::Name(n)) => Err(format!("unbound name {n}")),
        (_, SType::Prim(Prim::Reserved)) => Ok(()),
        (_, SType::Prim(Prim::Empty)) => bad(),
        (AV::Null, SType::Prim(Prim::Null)) => Ok(()),
        (AV::Bool(_), SType::Prim(Prim::Bool)) => Ok(()),
        (AV::Nat(s), SType::Prim(Prim::Nat)) if !s.starts_with('-') => Ok(()),
        (AV::Int(_), SType::Prim(Prim::Int)) => Ok(()),
        (AV::NatN(8, x), SType::Prim(Prim::Nat8)) if *x <= u8::MAX as u64 => Ok(()),
        (AV::NatN(16, x), SType::Prim(Prim::Nat16)) if *x <= u16::MAX as u64 => Ok(()),
        (AV::NatN(32, x), SType::Prim(Prim::Nat32)) if *x <= u32::MAX as u64 => Ok(()),
        (AV::NatN(64, _), SType::Prim(Prim::Nat64)) => Ok(()),
        (AV::IntN(8, x), SType::Prim(Prim::Int8)) if *x >= i8::MIN as i64 && *x <= i8::MAX as i64 => Ok(()),
        (AV::IntN(16, x), SType::Prim(Prim::Int16)) if *x >= i16::MIN as i64 && *x <= i16::MAX as i64 => Ok(()),
        (AV::IntN(32, x), SType::Prim(Prim::Int32)) if *x >= i32::MIN as i64 && *x <= i32::MAX as i64 => Ok(()),
        (AV::IntN(64, _), SType::Prim(Prim::Int64)) => Ok(()),
        (AV::F32(_), SType::Prim(Prim::Float32)) => Ok(()),
        (AV::F64(_), SType::Prim(Prim::Float64)) => Ok(()),
        (AV::Text(_), SType::Prim(Prim::Text)) => Ok(()),
        (AV::Principal(b), SType::Prim(Prim::Principal)) if b.len() <= 29 => Ok(()),
        (AV::Opt(None), SType::Opt(_)) => Ok(()),
        (AV::Opt(Some(x)), SType::Opt(t)) => has_type(env, x, t),
        (AV::Vec(xs), SType::Vec(t)) => {
            for x in xs {
                has_type(env, x, t)?;
            }
            Ok(())
        }
        (AV::Record(vs), SType::Record(fs)) => {
            if vs.len() != fs.len() {
                return bad();
            }
            for ((i, x), (l, t)) in vs.iter().zip(fs.iter()) {
                if *i != l.id() {
                    return bad();
                }
                has_type(env, x, t)?;
            }
            Ok(())
        }
        (AV::Variant(i, x), SType::Variant(fs)) => match fs.iter().find(|(l, _)| l.id() == *i) {
            Some((_, t)) => has_type(env, x, t),
            None => bad(),
        },
        (AV::Service(b), SType::Service(_)) if b.len() <= 29 => Ok(()),
        (AV::Func(b, _), SType::Func { .. }) if b.len() <= 29 => Ok(()),
        _ => bad(),
    }
}

/// The spec's coherence `~`: smallest homomorphic, reflexive, symmetric relation
/// with `opt v ~ null` (written here on decoded values, where an absent option is
/// `Opt(None)` and the null value is `Null`).
pub fn coherent(a: &AV, b: &AV) -> bool {
    if a == b {
        return true;
    }
    match (a, b) {
        (AV::Opt(_), AV::Opt(None)) | (AV::Opt(None), AV::Opt(_)) => true,
        (AV::Opt(_), AV::Null) | (AV::Null, AV::Opt(_)) => true,
        (AV::Opt(Some(x)), AV::Opt(Some(y))) => coherent(x, y),
        (AV::Vec(xs), AV::Vec(ys)) => xs.len() == ys.len() && xs.iter().zip(ys.iter()).all(|(x, y)| coherent(x, y)),
        (AV::Record(xs), AV::Record(ys)) => xs.len() == ys.len() && xs.iter().zip(ys.iter()).all(|((i, x), (j, y))| i == j && coherent(x, y)),
        (AV::Variant(i, x), AV::Variant(j, y)) => i == j && coherent(x, y),
        _ => false,
    }
}

/// Is `r`, decoded at the supertype `t`, what the value `s` of a subtype looks like at `t`?
/// Exact except for options, which may have turned into "absent" (the spec allows that
/// whenever the constituent does not fit), and for fields the supertype does not have.
/// `unordered`: the receiver is a host set/map, which may reorder and deduplicate.
pub fn coerced(env: &SEnv, s: &AV, r: &AV, t: &SType, unordered: bool) -> Result<(), String> {
    let t = env.unfold(t);
    let bad = |what: &str| Err(format!("{what}: sent {} but received {} at {}", s.brief(), r.brief(), show_type(t)));
    match t {
        SType::Prim(Prim::Reserved) => Ok(()),
        SType::Prim(Prim::Int) => match (s, r) {
            (AV::Int(a), AV::Int(b)) | (AV::Nat(a), AV::Int(b)) if a == b => Ok(()),
            _ => bad("number changed"),
        },
        // a service reference is its principal
        SType::Prim(Prim::Principal) if matches!((s, r), (AV::Service(a), AV::Principal(b)) if a == b) => Ok(()),
        SType::Prim(_) | SType::Func { .. } | SType::Service(_) => {
            if s == r {
                Ok(())
            } else {
                bad("value changed")
            }
        }
        SType::Opt(inner) => match r {
            AV::Opt(None) => Ok(()),
            AV::Opt(Some(y)) => match s {
                AV::Opt(Some(x)) => coerced(env, x, y, inner, unordered),
                AV::Opt(None) | AV::Null | AV::Reserved => bad("a present option out of an absent one"),
                x => coerced(env, x, y, inner, unordered),
            },
            _ => bad("not an option"),
        },
        SType::Vec(inner) => {
            let (AV::Vec(xs), AV::Vec(ys)) = (s, r) else { return bad("not a vector") };
            if xs.len() == ys.len() && xs.iter().zip(ys.iter()).all(|(x, y)| coerced(env, x, y, inner, unordered).is_ok()) {
                return Ok(());
            }
            if !unordered {
                if xs.len() != ys.len() {
                    return bad("vector length changed");
                }
                for (x, y) in xs.iter().zip(ys.iter()) {
                    coerced(env, x, y, inner, unordered)?;
                }
                return Ok(());
            }
            // every received element is some sent element, each sent element used at most once
            if ys.len() > xs.len() {
                return bad("more elements than were sent");
            }
            // (bipartite matching by augmenting paths: an absent option is compatible with anything sent)
            let ok: Vec<Vec<usize>> = ys.iter().map(|y| (0..xs.len()).filter(|&i| coerced(env, &xs[i], y, inner, unordered).is_ok()).collect()).collect();
            fn augment(j: usize, ok: &[Vec<usize>], owner: &mut [Option<usize>], seen: &mut [bool]) -> bool {
                for &i in &ok[j] {
                    if seen[i] {
                        continue;
                    }
                    seen[i] = true;
                    if owner[i].is_none() || augment(owner[i].unwrap(), ok, owner, seen) {
                        owner[i] = Some(j);
                        return true;
                    }
                }
                false
            }
            let mut owner: Vec<Option<usize>> = vec![None; xs.len()];
            for j in 0..ys.len() {
                let mut seen = vec![false; xs.len()];
                if !augment(j, &ok, &mut owner, &mut seen) {
                    return Err(format!("element {} cannot be matched with a sent element of its own; sent {}", ys[j].brief(), s.brief()));
                }
            }
            Ok(())
        }
        SType::Record(fs) => {
            let (AV::Record(xs), AV::Record(ys)) = (s, r) else { return bad("not a record") };
            if ys.len() != fs.len() {
                return bad("record fields differ from the type");
            }
            for ((l, ft), (j, y)) in fs.iter().zip(ys.iter()) {
                if l.id() != *j {
                    return bad("record fields differ from the type");
                }
                match xs.iter().find(|(i, _)| i == j) {
                    Some((_, x)) => coerced(env, x, y, ft, unordered)?,
                    None => {
                        if !matches!(y, AV::Null | AV::Opt(None) | AV::Reserved) {
                            return bad("a field that was never sent has a value");
                        }
                    }
                }
            }
            Ok(())
        }
        SType::Variant(fs) => {
            let (AV::Variant(i, x), AV::Variant(j, y)) = (s, r) else { return bad("not a variant") };
            if i != j {
                return bad("variant case changed");
            }
            match fs.iter().find(|(l, _)| l.id() == *j) {
                Some((_, ft)) => coerced(env, x, y, ft, unordered),
                None => bad("variant case not in the type"),
            }
        }
        SType::Name(_) => bad("unbound name"),
    }
}

// ---------------------------------------------------------------- own printer

const KEYWORDS: [&str; 36] = [
    "type", "service", "import", "func", "query", "oneway", "composite_query", "record", "variant", "vec", "opt", "blob", "principal", "null", "bool", "nat", "int", "nat8", "nat16", "nat32", "nat64", "int8", "int16",
    "int32", "int64", "float32", "float64", "text", "reserved", "empty", "true", "false", "init", "_", "any", "unreachable",
];

fn is_plain_ident(s: &str) -> bool {
    let mut ch = s.chars();
    match ch.next() {
        Some(c) if c.is_ascii_alphabetic() || c == '_' => {}
        _ => return false,
    }
    ch.all(|c| c.is_ascii_alphanumeric() || c == '_') && !KEYWORDS.contains(&s)
}

pub fn quote(s: &str) -> String {
    let mut out = String::from("\"");
    for c in s.chars() {
        match c {
            '"' => out.push_str("\\\""),
            '\\' => out.push_str("\\\\"),
            '\n' => out.push_str("\\n"),
            '\r' => out.push_str("\\r"),
            '\t' => out.push_str("\\t"),
            c if (c as u32) < 0x20 || c as u32 == 0x7f => out.push_str(&format!("\\u{{{:x}}}", c as u32)),
            c => out.push(c),
        }
    }
    out.push('"');
    out
}

pub fn show_label(l: &SLabel) -> String {
    match l {
        SLabel::Id(n) => format!("{n}"),
        SLabel::Named(s) => {
            if is_plain_ident(s) {
                s.clone()
            } else {
                quote(s)
            }
        }
    }
}

pub fn show_type(t: &SType) -> String {
    match t {
        SType::Prim(p) => p.name().to_string(),
        SType::Opt(t) => format!("opt {}", show_type(t)),
        SType::Vec(t) => format!("vec {}", show_type(t)),
        SType::Record(fs) => {
            let inner: Vec<String> = fs.iter().map(|(l, t)| format!("{} : {}", show_label(l), show_type(t))).collect();
            format!("record {{ {} }}", inner.join("; "))
        }
        SType::Variant(fs) => {
            let inner: Vec<String> = fs.iter().map(|(l, t)| format!("{} : {}", show_label(l), show_type(t))).collect();
            format!("variant {{ {} }}", inner.join("; "))
        }
        SType::Func { .. } => format!("func {}", show_func_sig(t)),
        SType::Service(ms) => {
            let inner: Vec<String> = ms
                .iter()
                .map(|(n, t)| match t {
                    SType::Func { .. } => format!("{} : {}", quote(n), show_func_sig(t)),
                    other => format!("{} : {}", quote(n), show_type(other)),
                })
                .collect();
            format!("service {{ {} }}", inner.join("; "))
        }
        SType::Name(n) => n.clone(),
    }
}

fn show_func_sig(t: &SType) -> String {
    if let SType::Func { args, rets, mode } = t {
        let a: Vec<String> = args.iter().map(show_type).collect();
        let r: Vec<String> = rets.iter().map(show_type).collect();
        let m = match mode {
            Mode::Update => "",
            Mode::Query => " query",
            Mode::Oneway => " oneway",
            Mode::CompositeQuery => " composite_query",
        };
        format!("({}) -> ({}){}", a.join(", "), r.join(", "), m)
    } else {
        String::new()
    }
}

/// Print an environment and (optionally) a main service as .did text, definitions
/// in the given order (a "presentation").
pub fn show_prog(env: &SEnv, order: &[String], service: Option<&SType>) -> String {
    let mut out = String::new();
    for n in order {
        if let Some(t) = env.0.get(n) {
            out.push_str(&format!("type {n} = {};\n", show_type(t)));
        }
    }
    if let Some(s) = service {
        match s {
            SType::Service(_) => {
                let body = show_type(s);
                out.push_str(&format!("service : {}\n", body.strip_prefix("service ").unwrap_or(&body)));
            }
            other => out.push_str(&format!("service : {}\n", show_type(other))),
        }
    }
    out
}

#[cfg(test)]
mod tests {
    use super::*;
    #[test]
    fn hash_vectors() {
        // values from the Candid spec / well known
        assert_eq!(own_hash("ok"), 24860);
        assert_eq!(own_hash("err"), 5048165);
        assert_eq!(own_hash(""), 0);
    }
}
