//! Bridges between the harness's types/values and the crate's `Type`/`IDLValue`.
//! Construction goes through public constructors only.

use crate::models::stype::*;
use candid::types::value::{IDLField, IDLValue, VariantValue};
use candid::types::{Field, FuncMode, Function, Label, Type, TypeEnv, TypeInner};
use candid::{Int, Nat, Principal};

pub fn prim_type(p: Prim) -> Type {
    match p {
        Prim::Null => TypeInner::Null,
        Prim::Bool => TypeInner::Bool,
        Prim::Nat => TypeInner::Nat,
        Prim::Int => TypeInner::Int,
        Prim::Nat8 => TypeInner::Nat8,
        Prim::Nat16 => TypeInner::Nat16,
        Prim::Nat32 => TypeInner::Nat32,
        Prim::Nat64 => TypeInner::Nat64,
        Prim::Int8 => TypeInner::Int8,
        Prim::Int16 => TypeInner::Int16,
        Prim::Int32 => TypeInner::Int32,
        Prim::Int64 => TypeInner::Int64,
        Prim::Float32 => TypeInner::Float32,
        Prim::Float64 => TypeInner::Float64,
        Prim::Text => TypeInner::Text,
        Prim::Reserved => TypeInner::Reserved,
        Prim::Empty => TypeInner::Empty,
        Prim::Principal => TypeInner::Principal,
    }
    .into()
}

pub fn label(l: &SLabel) -> Label {
    match l {
        SLabel::Id(n) => Label::Id(*n),
        SLabel::Named(s) => Label::Named(s.clone()),
    }
}

pub fn to_type(t: &SType) -> Type {
    match t {
        SType::Prim(p) => prim_type(*p),
        SType::Opt(t) => TypeInner::Opt(to_type(t)).into(),
        SType::Vec(t) => TypeInner::Vec(to_type(t)).into(),
        SType::Record(fs) => TypeInner::Record(fs.iter().map(|(l, t)| Field { id: label(l).into(), ty: to_type(t) }).collect()).into(),
        SType::Variant(fs) => TypeInner::Variant(fs.iter().map(|(l, t)| Field { id: label(l).into(), ty: to_type(t) }).collect()).into(),
        SType::Func { args, rets, mode } => TypeInner::Func(Function {
            modes: match mode {
                Mode::Update => vec![],
                Mode::Query => vec![FuncMode::Query],
                Mode::Oneway => vec![FuncMode::Oneway],
                Mode::CompositeQuery => vec![FuncMode::CompositeQuery],
            },
            args: args.iter().map(to_type).collect(),
            rets: rets.iter().map(to_type).collect(),
        })
        .into(),
        SType::Service(ms) => TypeInner::Service(ms.iter().map(|(n, t)| (n.clone(), to_type(t))).collect()).into(),
        SType::Name(n) => TypeInner::Var(n.clone()).into(),
    }
}

pub fn to_env(env: &SEnv) -> TypeEnv {
    let mut e = TypeEnv::new();
    for (k, v) in &env.0 {
        e.0.insert(k.clone(), to_type(v));
    }
    e
}

pub fn principal(b: &[u8]) -> Principal {
    Principal::from_slice(&b[..b.len().min(29)])
}

/// Abstract value -> IDLValue. Record fields carry numeric labels (labels compare
/// by id), variants index 0 (typed encoding recomputes it).
pub fn to_idl(v: &AV) -> IDLValue {
    match v {
        AV::Null => IDLValue::Null,
        AV::Bool(b) => IDLValue::Bool(*b),
        AV::Nat(s) => IDLValue::Nat(Nat::parse(s.as_bytes()).expect("harness nat literal")),
        AV::Int(s) => IDLValue::Int(Int::parse(s.as_bytes()).expect("harness int literal")),
        AV::NatN(8, x) => IDLValue::Nat8(*x as u8),
        AV::NatN(16, x) => IDLValue::Nat16(*x as u16),
        AV::NatN(32, x) => IDLValue::Nat32(*x as u32),
        AV::NatN(_, x) => IDLValue::Nat64(*x),
        AV::IntN(8, x) => IDLValue::Int8(*x as i8),
        AV::IntN(16, x) => IDLValue::Int16(*x as i16),
        AV::IntN(32, x) => IDLValue::Int32(*x as i32),
        AV::IntN(_, x) => IDLValue::Int64(*x),
        AV::F32(b) => IDLValue::Float32(f32::from_bits(*b)),
        AV::F64(b) => IDLValue::Float64(f64::from_bits(*b)),
        AV::Text(s) => IDLValue::Text(s.clone()),
        AV::Reserved => IDLValue::Reserved,
        AV::Opt(None) => IDLValue::None,
        AV::Opt(Some(x)) => IDLValue::Opt(Box::new(to_idl(x))),
        AV::Vec(xs) => {
            if !xs.is_empty() && xs.iter().all(|x| matches!(x, AV::NatN(8, _))) {
                IDLValue::Blob(xs.iter().map(|x| if let AV::NatN(8, b) = x { *b as u8 } else { 0 }).collect())
            } else {
                IDLValue::Vec(xs.iter().map(to_idl).collect())
            }
        }
        AV::Record(fs) => IDLValue::Record(fs.iter().map(|(i, x)| IDLField { id: Label::Id(*i), val: to_idl(x) }).collect()),
        AV::Variant(i, x) => IDLValue::Variant(VariantValue(Box::new(IDLField { id: Label::Id(*i), val: to_idl(x) }), 0)),
        AV::Principal(b) => IDLValue::Principal(principal(b)),
        AV::Service(b) => IDLValue::Service(principal(b)),
        AV::Func(b, m) => IDLValue::Func(principal(b), m.clone()),
    }
}

/// The same value written the way a caller of the typed-untyped API may also write it: the
/// re-annotation with the target type accepts a `nat` value or a bare number literal where
/// the type says `int`, `null`/`reserved` for an absent option, anything at `reserved`, a
/// float64 literal at `float32`, and omitted record fields of type null/opt/reserved.
/// `seed == 0` is the exact form (`to_idl`).
pub fn to_idl_loose(v: &AV, seed: u64) -> IDLValue {
    if seed == 0 {
        return to_idl(v);
    }
    let mut rng = crate::kernel::rng::Rng::new(seed);
    loose(v, &mut rng)
}

fn loose(v: &AV, rng: &mut crate::kernel::rng::Rng) -> IDLValue {
    match v {
        AV::Int(s) if !s.starts_with('-') && rng.chance(1, 2) => IDLValue::Nat(Nat::parse(s.as_bytes()).expect("harness nat literal")),
        AV::Int(s) | AV::Nat(s) if rng.chance(1, 4) => IDLValue::Number(s.clone()),
        AV::NatN(_, x) if rng.chance(1, 6) => IDLValue::Number(x.to_string()),
        AV::IntN(_, x) if rng.chance(1, 6) => IDLValue::Number(x.to_string()),
        AV::Opt(None) => match rng.below(6) {
            0 | 1 => IDLValue::Null,
            2 => IDLValue::Reserved,
            _ => IDLValue::None,
        },
        AV::Reserved => match rng.below(5) {
            0 => IDLValue::Text("anything".into()),
            1 => IDLValue::Nat(Nat::from(7u8)),
            2 => IDLValue::Null,
            3 => IDLValue::Vec(vec![IDLValue::Bool(true)]),
            _ => IDLValue::Reserved,
        },
        AV::F32(b) if !f32::from_bits(*b).is_nan() && rng.chance(1, 3) => IDLValue::Float64(f32::from_bits(*b) as f64),
        AV::Opt(Some(x)) => IDLValue::Opt(Box::new(loose(x, rng))),
        AV::Vec(xs) => {
            if !xs.is_empty() && xs.iter().all(|x| matches!(x, AV::NatN(8, _))) {
                if rng.chance(1, 4) {
                    IDLValue::Vec(xs.iter().map(|x| if let AV::NatN(8, b) = x { if rng.chance(1, 2) { IDLValue::Nat8(*b as u8) } else { IDLValue::Number(b.to_string()) } } else { IDLValue::Null }).collect())
                } else {
                    to_idl(v)
                }
            } else {
                IDLValue::Vec(xs.iter().map(|x| loose(x, rng)).collect())
            }
        }
        AV::Record(fs) => {
            let mut out = Vec::new();
            for (i, x) in fs {
                if matches!(x, AV::Null | AV::Opt(None) | AV::Reserved) && rng.chance(1, 3) {
                    continue;
                }
                out.push(IDLField { id: Label::Id(*i), val: loose(x, rng) });
            }
            if rng.chance(1, 2) {
                out.reverse();
            }
            IDLValue::Record(out)
        }
        AV::Variant(i, x) => IDLValue::Variant(VariantValue(Box::new(IDLField { id: Label::Id(*i), val: loose(x, rng) }), rng.below(5))),
        _ => to_idl(v),
    }
}

fn dec(s: String) -> String {
    s.replace('_', "")
}

/// IDLValue -> abstract value.
pub fn from_idl(v: &IDLValue) -> AV {
    match v {
        IDLValue::Null => AV::Null,
        IDLValue::Bool(b) => AV::Bool(*b),
        IDLValue::Text(s) => AV::Text(s.clone()),
        IDLValue::Number(s) => AV::Int(dec(s.clone())),
        IDLValue::Float64(f) => AV::F64(f.to_bits()),
        IDLValue::Float32(f) => AV::F32(f.to_bits()),
        IDLValue::Opt(x) => AV::some(from_idl(x)),
        IDLValue::None => AV::Opt(None),
        IDLValue::Vec(xs) => AV::Vec(xs.iter().map(from_idl).collect()),
        IDLValue::Blob(b) => AV::Vec(b.iter().map(|x| AV::NatN(8, *x as u64)).collect()),
        IDLValue::Record(fs) => AV::record(fs.iter().map(|f| (f.id.get_id(), from_idl(&f.val))).collect()),
        IDLValue::Variant(v) => AV::Variant(v.0.id.get_id(), Box::new(from_idl(&v.0.val))),
        IDLValue::Principal(p) => AV::Principal(p.as_slice().to_vec()),
        IDLValue::Service(p) => AV::Service(p.as_slice().to_vec()),
        IDLValue::Func(p, m) => AV::Func(p.as_slice().to_vec(), m.clone()),
        IDLValue::Int(i) => AV::Int(dec(i.to_string())),
        IDLValue::Nat(n) => AV::Nat(dec(n.to_string())),
        IDLValue::Nat8(x) => AV::NatN(8, *x as u64),
        IDLValue::Nat16(x) => AV::NatN(16, *x as u64),
        IDLValue::Nat32(x) => AV::NatN(32, *x as u64),
        IDLValue::Nat64(x) => AV::NatN(64, *x),
        IDLValue::Int8(x) => AV::IntN(8, *x as i64),
        IDLValue::Int16(x) => AV::IntN(16, *x as i64),
        IDLValue::Int32(x) => AV::IntN(32, *x as i64),
        IDLValue::Int64(x) => AV::IntN(64, *x),
        IDLValue::Reserved => AV::Reserved,
    }
}
