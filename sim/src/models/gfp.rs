//! Greatest-fixed-point oracle for the subtyping rules of spec/Candid.md §Rules,
//! and structural type equality by bisimulation.

use crate::models::stype::*;
use std::collections::BTreeMap;

type Pair = (SType, SType);

enum Rule {
    Const(bool),
    /// conjunction of premises
    All(Vec<Pair>),
}

fn sub_rule(env: &SEnv, a: &SType, b: &SType) -> Rule {
    let a = env.unfold(a);
    let b = env.unfold(b);
    match (a, b) {
        (_, SType::Prim(Prim::Reserved)) => Rule::Const(true),
        (SType::Prim(Prim::Empty), _) => Rule::Const(true),
        // the four opt rules taken together admit every type below an option
        (_, SType::Opt(_)) => Rule::Const(true),
        (SType::Prim(Prim::Nat), SType::Prim(Prim::Int)) => Rule::Const(true),
        (SType::Service(_), SType::Prim(Prim::Principal)) => Rule::Const(true),
        (SType::Prim(p), SType::Prim(q)) => Rule::Const(p == q),
        (SType::Vec(x), SType::Vec(y)) => Rule::All(vec![((**x).clone(), (**y).clone())]),
        (SType::Record(f1), SType::Record(f2)) => {
            let mut ps = Vec::new();
            for (l2, t2) in f2 {
                match f1.iter().find(|(l1, _)| l1.id() == l2.id()) {
                    Some((_, t1)) => ps.push((t1.clone(), t2.clone())),
                    None => {
                        if !env.is_optional(t2) {
                            return Rule::Const(false);
                        }
                    }
                }
            }
            Rule::All(ps)
        }
        (SType::Variant(f1), SType::Variant(f2)) => {
            let mut ps = Vec::new();
            for (l1, t1) in f1 {
                match f2.iter().find(|(l2, _)| l2.id() == l1.id()) {
                    Some((_, t2)) => ps.push((t1.clone(), t2.clone())),
                    None => return Rule::Const(false),
                }
            }
            Rule::All(ps)
        }
        (SType::Func { args: a1, rets: r1, mode: m1 }, SType::Func { args: a2, rets: r2, mode: m2 }) => {
            if m1 != m2 {
                return Rule::Const(false);
            }
            Rule::All(vec![(tuple_of(a2), tuple_of(a1)), (tuple_of(r1), tuple_of(r2))])
        }
        (SType::Service(m1), SType::Service(m2)) => {
            let mut ps = Vec::new();
            for (n2, t2) in m2 {
                match m1.iter().find(|(n1, _)| n1 == n2) {
                    Some((_, t1)) => ps.push((t1.clone(), t2.clone())),
                    None => return Rule::Const(false),
                }
            }
            Rule::All(ps)
        }
        _ => Rule::Const(false),
    }
}

fn eq_rule(env: &SEnv, a: &SType, b: &SType) -> Rule {
    let a = env.unfold(a);
    let b = env.unfold(b);
    match (a, b) {
        (SType::Prim(p), SType::Prim(q)) => Rule::Const(p == q),
        (SType::Opt(x), SType::Opt(y)) | (SType::Vec(x), SType::Vec(y)) => Rule::All(vec![((**x).clone(), (**y).clone())]),
        (SType::Record(f1), SType::Record(f2)) | (SType::Variant(f1), SType::Variant(f2)) => {
            if f1.len() != f2.len() {
                return Rule::Const(false);
            }
            let mut ps = Vec::new();
            for ((l1, t1), (l2, t2)) in f1.iter().zip(f2.iter()) {
                if l1.id() != l2.id() {
                    return Rule::Const(false);
                }
                ps.push((t1.clone(), t2.clone()));
            }
            Rule::All(ps)
        }
        (SType::Func { args: a1, rets: r1, mode: m1 }, SType::Func { args: a2, rets: r2, mode: m2 }) => {
            if m1 != m2 || a1.len() != a2.len() || r1.len() != r2.len() {
                return Rule::Const(false);
            }
            Rule::All(a1.iter().cloned().zip(a2.iter().cloned()).chain(r1.iter().cloned().zip(r2.iter().cloned())).collect())
        }
        (SType::Service(m1), SType::Service(m2)) => {
            if m1.len() != m2.len() {
                return Rule::Const(false);
            }
            let mut ps = Vec::new();
            for ((n1, t1), (n2, t2)) in m1.iter().zip(m2.iter()) {
                if n1 != n2 {
                    return Rule::Const(false);
                }
                ps.push((t1.clone(), t2.clone()));
            }
            Rule::All(ps)
        }
        _ => Rule::Const(false),
    }
}

fn gfp(env: &SEnv, a: &SType, b: &SType, rule: fn(&SEnv, &SType, &SType) -> Rule) -> (bool, usize) {
    // collect reachable pairs
    let mut rules: BTreeMap<Pair, Rule> = BTreeMap::new();
    let mut todo: Vec<Pair> = vec![(a.clone(), b.clone())];
    while let Some(p) = todo.pop() {
        if rules.contains_key(&p) {
            continue;
        }
        let r = rule(env, &p.0, &p.1);
        if let Rule::All(ps) = &r {
            for q in ps {
                if !rules.contains_key(q) {
                    todo.push(q.clone());
                }
            }
        }
        rules.insert(p, r);
    }
    let mut val: BTreeMap<Pair, bool> = rules.keys().map(|k| (k.clone(), true)).collect();
    loop {
        let mut changed = false;
        for (p, r) in &rules {
            if !val[p] {
                continue;
            }
            let ok = match r {
                Rule::Const(c) => *c,
                Rule::All(ps) => ps.iter().all(|q| val[q]),
            };
            if !ok {
                val.insert(p.clone(), false);
                changed = true;
            }
        }
        if !changed {
            break;
        }
    }
    (val[&(a.clone(), b.clone())], rules.len())
}

/// Is `a <: b` in the greatest relation closed under the spec's rules?
pub fn subtype(env: &SEnv, a: &SType, b: &SType) -> bool {
    gfp(env, a, b, sub_rule).0
}
pub fn subtype_n(env: &SEnv, a: &SType, b: &SType) -> (bool, usize) {
    gfp(env, a, b, sub_rule)
}
/// Structural equality (same skeleton, no coercive rules).
pub fn equal(env: &SEnv, a: &SType, b: &SType) -> bool {
    gfp(env, a, b, eq_rule).0
}

#[cfg(test)]
mod tests {
    use super::*;
    fn p(x: Prim) -> SType {
        SType::Prim(x)
    }
    #[test]
    fn basics() {
        let env = SEnv::new();
        assert!(subtype(&env, &p(Prim::Nat), &p(Prim::Int)));
        assert!(!subtype(&env, &p(Prim::Int), &p(Prim::Nat)));
        assert!(subtype(&env, &p(Prim::Text), &SType::opt(p(Prim::Nat))));
        let r1 = SType::record(vec![(SLabel::Id(0), p(Prim::Nat)), (SLabel::Id(1), p(Prim::Text))]);
        let r2 = SType::record(vec![(SLabel::Id(0), p(Prim::Int))]);
        assert!(subtype(&env, &r1, &r2));
        assert!(!subtype(&env, &r2, &r1));
        let r3 = SType::record(vec![(SLabel::Id(0), p(Prim::Int)), (SLabel::Id(7), SType::opt(p(Prim::Bool)))]);
        assert!(subtype(&env, &r2, &r3));
    }
    #[test]
    fn recursive() {
        // A = record{b:B; v:nat}, A2 = record{b:B2; v:text}, B = record{a:A}, B2 = record{a:A2}
        let mut env = SEnv::new();
        let l = |s: &str| SLabel::Named(s.into());
        env.0.insert("A".into(), SType::record(vec![(l("b"), SType::name("B")), (l("v"), p(Prim::Nat))]));
        env.0.insert("A2".into(), SType::record(vec![(l("b"), SType::name("B2")), (l("v"), p(Prim::Text))]));
        env.0.insert("B".into(), SType::record(vec![(l("a"), SType::name("A"))]));
        env.0.insert("B2".into(), SType::record(vec![(l("a"), SType::name("A2"))]));
        assert!(!subtype(&env, &SType::name("B"), &SType::name("B2")));
        assert!(subtype(&env, &SType::opt(SType::name("A")), &SType::opt(SType::name("A2"))));
        // list
        env.0.insert("L".into(), SType::opt(SType::record(vec![(SLabel::Id(0), p(Prim::Nat)), (SLabel::Id(1), SType::name("L"))])));
        env.0.insert("M".into(), SType::opt(SType::record(vec![(SLabel::Id(0), p(Prim::Int)), (SLabel::Id(1), SType::name("M"))])));
        assert!(subtype(&env, &SType::name("L"), &SType::name("M")));
        assert!(equal(&env, &SType::name("L"), &SType::name("L")));
        assert!(!equal(&env, &SType::name("L"), &SType::name("M")));
    }
}
