//! RD — the reference wire decoder, written from spec/Candid.md §"Binary Format".
//! Strict (it is only ever applied to encoder output) and without coercion:
//! every value is read at its *declared* wire type.

use crate::models::bigint::{leb_value, sleb_value};
use crate::models::stype::*;
use std::collections::BTreeSet;

#[derive(Clone, Debug, PartialEq, Eq)]
pub enum WRef {
    Prim(Prim),
    Idx(usize),
}
#[derive(Clone, Debug, PartialEq, Eq)]
pub enum WType {
    Opt(WRef),
    Vec(WRef),
    Record(Vec<(u32, WRef)>),
    Variant(Vec<(u32, WRef)>),
    Func { args: Vec<WRef>, rets: Vec<WRef>, modes: Vec<u8> },
    Service(Vec<(String, WRef)>),
}
#[derive(Clone, Debug)]
pub struct Parsed {
    pub table: Vec<WType>,
    pub args: Vec<WRef>,
    pub values: Vec<AV>,
    pub header_len: usize,
}

/// clause id + explanation
#[derive(Clone, Debug)]
pub struct Malformed(pub &'static str, pub String);
type R<T> = Result<T, Malformed>;

struct Rd<'a> {
    b: &'a [u8],
    p: usize,
    depth: usize,
}

fn mal<T>(c: &'static str, m: impl Into<String>) -> R<T> {
    Err(Malformed(c, m.into()))
}

impl<'a> Rd<'a> {
    fn byte(&mut self) -> R<u8> {
        match self.b.get(self.p) {
            Some(x) => {
                self.p += 1;
                Ok(*x)
            }
            None => mal("truncated", format!("input ends at {}", self.p)),
        }
    }
    fn take(&mut self, n: usize) -> R<&'a [u8]> {
        if self.b.len() - self.p < n {
            return mal("truncated", format!("need {n} bytes at {}", self.p));
        }
        let s = &self.b[self.p..self.p + n];
        self.p += n;
        Ok(s)
    }
    fn leb_u64(&mut self) -> R<u64> {
        match leb_value(&self.b[self.p..]) {
            None => mal("truncated", format!("unterminated LEB128 at {}", self.p)),
            Some((v, n)) => {
                self.p += n;
                match v.to_u128() {
                    Some(x) if x <= u64::MAX as u128 => Ok(x as u64),
                    _ => mal("number-range", "LEB128 count does not fit 64 bits"),
                }
            }
        }
    }
    fn leb_usize(&mut self) -> R<usize> {
        let v = self.leb_u64()?;
        if v > (self.b.len() as u64).saturating_mul(8) + 1_000_000 {
            // no honest message has more entries than that; keeps RD's own allocations bounded
            return mal("truncated", format!("count {v} exceeds the input"));
        }
        Ok(v as usize)
    }
    fn sleb_i64(&mut self) -> R<i64> {
        match sleb_value(&self.b[self.p..]) {
            None => mal("truncated", format!("unterminated SLEB128 at {}", self.p)),
            Some((v, n)) => {
                self.p += n;
                match v.to_i128() {
                    Some(x) if x >= i64::MIN as i128 && x <= i64::MAX as i128 => Ok(x as i64),
                    _ => mal("number-range", "SLEB128 opcode does not fit 64 bits"),
                }
            }
        }
    }
    fn wref(&mut self, n: usize) -> R<WRef> {
        let i = self.sleb_i64()?;
        if i >= 0 {
            if (i as usize) < n {
                Ok(WRef::Idx(i as usize))
            } else {
                mal("index-range", format!("type index {i} with table of {n}"))
            }
        } else {
            match Prim::from_opcode(i) {
                Some(p) => Ok(WRef::Prim(p)),
                None => mal("index-range", format!("{i} is not a primitive opcode")),
            }
        }
    }
    fn fields(&mut self, n: usize) -> R<Vec<(u32, WRef)>> {
        let k = self.leb_usize()?;
        let mut out = Vec::new();
        let mut prev: Option<u64> = None;
        for _ in 0..k {
            let id = self.leb_u64()?;
            if id > u32::MAX as u64 {
                return mal("field-id-range", format!("field id {id} >= 2^32"));
            }
            if let Some(p) = prev {
                if id <= p {
                    return mal("field-order", format!("field id {id} after {p}"));
                }
            }
            prev = Some(id);
            out.push((id as u32, self.wref(n)?));
        }
        Ok(out)
    }
    fn table_entry(&mut self, n: usize) -> R<WType> {
        let op = self.sleb_i64()?;
        match op {
            -18 => Ok(WType::Opt(self.wref(n)?)),
            -19 => Ok(WType::Vec(self.wref(n)?)),
            -20 => Ok(WType::Record(self.fields(n)?)),
            -21 => Ok(WType::Variant(self.fields(n)?)),
            -22 => {
                let a = self.leb_usize()?;
                let mut args = Vec::new();
                for _ in 0..a {
                    args.push(self.wref(n)?);
                }
                let r = self.leb_usize()?;
                let mut rets = Vec::new();
                for _ in 0..r {
                    rets.push(self.wref(n)?);
                }
                let m = self.leb_usize()?;
                if m > 1 {
                    return mal("annotation", format!("{m} annotations"));
                }
                let mut modes = Vec::new();
                for _ in 0..m {
                    let b = self.byte()?;
                    if !(1..=3).contains(&b) {
                        return mal("annotation", format!("annotation byte {b}"));
                    }
                    modes.push(b);
                }
                Ok(WType::Func { args, rets, modes })
            }
            -23 => {
                let k = self.leb_usize()?;
                let mut ms: Vec<(String, WRef)> = Vec::new();
                for _ in 0..k {
                    let l = self.leb_usize()?;
                    let raw = self.take(l)?;
                    let name = match std::str::from_utf8(raw) {
                        Ok(s) => s.to_string(),
                        Err(_) => return mal("utf8", "method name is not UTF-8"),
                    };
                    if let Some((p, _)) = ms.last() {
                        if name.as_bytes() <= p.as_bytes() {
                            return mal("method-order", format!("method {name:?} after {p:?}"));
                        }
                    }
                    let t = self.wref(n)?;
                    ms.push((name, t));
                }
                Ok(WType::Service(ms))
            }
            other => mal("table-composite-only", format!("table entry with opcode {other}")),
        }
    }

    fn value(&mut self, table: &[WType], t: &WRef) -> R<AV> {
        self.depth += 1;
        if self.depth > 3000 {
            return mal("depth", "value nesting beyond what RD supports");
        }
        let r = self.value_(table, t);
        self.depth -= 1;
        r
    }
    fn fixed(&mut self, n: usize) -> R<u64> {
        let s = self.take(n)?;
        let mut v = 0u64;
        for (i, b) in s.iter().enumerate() {
            v |= (*b as u64) << (8 * i);
        }
        Ok(v)
    }
    fn principal_body(&mut self) -> R<Vec<u8>> {
        let flag = self.byte()?;
        if flag != 1 {
            return mal("reference-flag", format!("reference flag {flag}"));
        }
        let l = self.leb_usize()?;
        if l > 29 {
            return mal("principal-length", format!("principal of {l} bytes"));
        }
        Ok(self.take(l)?.to_vec())
    }
    fn text(&mut self) -> R<String> {
        let l = self.leb_usize()?;
        let raw = self.take(l)?;
        match std::str::from_utf8(raw) {
            Ok(s) => Ok(s.to_string()),
            Err(_) => mal("utf8", "text is not UTF-8"),
        }
    }
    fn value_(&mut self, table: &[WType], t: &WRef) -> R<AV> {
        match t {
            WRef::Prim(p) => Ok(match p {
                Prim::Null => AV::Null,
                Prim::Reserved => AV::Reserved,
                Prim::Empty => return mal("empty-value", "a value of type empty"),
                Prim::Bool => match self.byte()? {
                    0 => AV::Bool(false),
                    1 => AV::Bool(true),
                    b => return mal("bool", format!("bool byte {b}")),
                },
                Prim::Nat => match leb_value(&self.b[self.p..]) {
                    None => return mal("truncated", "unterminated nat"),
                    Some((v, n)) => {
                        self.p += n;
                        AV::Nat(v.to_decimal())
                    }
                },
                Prim::Int => match sleb_value(&self.b[self.p..]) {
                    None => return mal("truncated", "unterminated int"),
                    Some((v, n)) => {
                        self.p += n;
                        AV::Int(v.to_decimal())
                    }
                },
                Prim::Nat8 => AV::NatN(8, self.fixed(1)?),
                Prim::Nat16 => AV::NatN(16, self.fixed(2)?),
                Prim::Nat32 => AV::NatN(32, self.fixed(4)?),
                Prim::Nat64 => AV::NatN(64, self.fixed(8)?),
                Prim::Int8 => AV::IntN(8, self.fixed(1)? as u8 as i8 as i64),
                Prim::Int16 => AV::IntN(16, self.fixed(2)? as u16 as i16 as i64),
                Prim::Int32 => AV::IntN(32, self.fixed(4)? as u32 as i32 as i64),
                Prim::Int64 => AV::IntN(64, self.fixed(8)? as i64),
                Prim::Float32 => AV::F32(self.fixed(4)? as u32),
                Prim::Float64 => AV::F64(self.fixed(8)?),
                Prim::Text => AV::Text(self.text()?),
                Prim::Principal => AV::Principal(self.principal_body()?),
            }),
            WRef::Idx(i) => match &table[*i] {
                WType::Opt(t) => match self.byte()? {
                    0 => Ok(AV::Opt(None)),
                    1 => Ok(AV::some(self.value(table, t)?)),
                    b => mal("opt-tag", format!("opt tag {b}")),
                },
                WType::Vec(t) => {
                    let n = self.leb_usize()?;
                    let mut out = Vec::new();
                    for _ in 0..n {
                        out.push(self.value(table, t)?);
                    }
                    Ok(AV::Vec(out))
                }
                WType::Record(fs) => {
                    let mut out = Vec::new();
                    for (id, t) in fs {
                        out.push((*id, self.value(table, t)?));
                    }
                    Ok(AV::Record(out))
                }
                WType::Variant(fs) => {
                    let i = self.leb_u64()?;
                    if i >= fs.len() as u64 {
                        return mal("variant-index", format!("variant index {i} of {}", fs.len()));
                    }
                    let (id, t) = &fs[i as usize];
                    Ok(AV::Variant(*id, Box::new(self.value(table, t)?)))
                }
                WType::Func { .. } => {
                    let flag = self.byte()?;
                    if flag != 1 {
                        return mal("reference-flag", format!("func reference flag {flag}"));
                    }
                    let p = self.principal_body()?;
                    let m = self.text()?;
                    Ok(AV::Func(p, m))
                }
                WType::Service(_) => Ok(AV::Service(self.principal_body()?)),
            },
        }
    }
}

pub fn parse(bytes: &[u8]) -> Result<Parsed, Malformed> {
    let mut r = Rd { b: bytes, p: 0, depth: 0 };
    if bytes.len() < 4 || &bytes[..4] != b"DIDL" {
        return mal("magic", "does not start with DIDL");
    }
    r.p = 4;
    let n = r.leb_usize()?;
    let mut table = Vec::new();
    for _ in 0..n {
        table.push(r.table_entry(n)?);
    }
    for t in &table {
        if let WType::Service(ms) = t {
            for (name, m) in ms {
                match m {
                    WRef::Idx(i) if matches!(table[*i], WType::Func { .. }) => {}
                    _ => return mal("method-is-func", format!("method {name:?} is not of function type")),
                }
            }
        }
    }
    let a = r.leb_usize()?;
    let mut args = Vec::new();
    for _ in 0..a {
        args.push(r.wref(n)?);
    }
    let header_len = r.p;
    let mut values = Vec::new();
    for t in &args {
        values.push(r.value(&table, t)?);
    }
    if r.p != bytes.len() {
        return mal("trailing", format!("{} bytes left over", bytes.len() - r.p));
    }
    Ok(Parsed { table, args, values, header_len })
}

fn mode_bytes(m: Mode) -> Vec<u8> {
    match m {
        Mode::Update => vec![],
        Mode::Query => vec![1],
        Mode::Oneway => vec![2],
        Mode::CompositeQuery => vec![3],
    }
}

/// Is the wire type graph at `w` the same type as `t` under `env`? (bisimulation;
/// primitive aliases are unfolded on the expected side)
pub fn bisim(p: &Parsed, w: &WRef, env: &SEnv, t: &SType) -> Result<(), String> {
    let mut seen: BTreeSet<(usize, String)> = BTreeSet::new();
    go(p, w, env, t, &mut seen)
}

fn go(p: &Parsed, w: &WRef, env: &SEnv, t: &SType, seen: &mut BTreeSet<(usize, String)>) -> Result<(), String> {
    if let (WRef::Idx(i), SType::Name(n)) = (w, t) {
        if !seen.insert((*i, n.clone())) {
            return Ok(());
        }
    }
    let t = env.unfold(t);
    let mismatch = |what: &str| Err(format!("wire {what} vs expected {}", show_type(t)));
    match (w, t) {
        (WRef::Prim(a), SType::Prim(b)) => {
            if a == b {
                Ok(())
            } else {
                mismatch(a.name())
            }
        }
        (WRef::Prim(a), _) => mismatch(a.name()),
        (WRef::Idx(_), SType::Prim(_)) => mismatch("a table entry"),
        (WRef::Idx(i), _) => match (&p.table[*i], t) {
            (WType::Opt(a), SType::Opt(b)) => go(p, a, env, b, seen),
            (WType::Vec(a), SType::Vec(b)) => go(p, a, env, b, seen),
            (WType::Record(a), SType::Record(b)) | (WType::Variant(a), SType::Variant(b)) => {
                if a.len() != b.len() {
                    return Err(format!("{} wire fields vs {} expected in {}", a.len(), b.len(), show_type(t)));
                }
                for ((ia, wa), (lb, tb)) in a.iter().zip(b.iter()) {
                    if *ia != lb.id() {
                        return Err(format!("wire field id {ia} vs expected {} in {}", lb.id(), show_type(t)));
                    }
                    go(p, wa, env, tb, seen)?;
                }
                Ok(())
            }
            (WType::Func { args, rets, modes }, SType::Func { args: ea, rets: er, mode }) => {
                if *modes != mode_bytes(*mode) {
                    return Err(format!("wire annotations {modes:?} vs expected {mode:?}"));
                }
                if args.len() != ea.len() || rets.len() != er.len() {
                    return Err(format!("function arity differs from {}", show_type(t)));
                }
                for (w, e) in args.iter().zip(ea.iter()).chain(rets.iter().zip(er.iter())) {
                    go(p, w, env, e, seen)?;
                }
                Ok(())
            }
            (WType::Service(a), SType::Service(b)) => {
                if a.len() != b.len() {
                    return Err(format!("{} wire methods vs {} expected", a.len(), b.len()));
                }
                for ((na, wa), (nb, tb)) in a.iter().zip(b.iter()) {
                    if na != nb {
                        return Err(format!("wire method {na:?} vs expected {nb:?}"));
                    }
                    go(p, wa, env, tb, seen)?;
                }
                Ok(())
            }
            (other, _) => Err(format!("wire {other:?} vs expected {}", show_type(t))),
        },
    }
}
