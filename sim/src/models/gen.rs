//! Seeded generators for type environments and inhabitants (blueprint: DESIGN.md A.1).

use crate::kernel::rng::Rng;
use crate::models::bigint::{BigI, BigU};
use crate::models::stype::*;
use std::collections::BTreeMap;

#[derive(Clone, Debug)]
pub struct TyKnobs {
    pub defs: usize,
    /// percent chance that a leaf position refers to a definition
    pub rec_pct: u64,
    pub max_depth: usize,
    pub max_fields: usize,
    pub refs: bool,
    pub allow_empty: bool,
    pub allow_reserved: bool,
    /// percent of record fields wrapped in opt
    pub opt_pct: u64,
    /// which primitives to draw from
    pub prims: Vec<Prim>,
}

impl TyKnobs {
    pub fn draw(rng: &mut Rng) -> TyKnobs {
        let full: Vec<Prim> = Prim::ALL.iter().copied().filter(|p| !matches!(p, Prim::Empty | Prim::Reserved)).collect();
        let few = vec![Prim::Nat, Prim::Int, Prim::Text, Prim::Bool, Prim::Null, Prim::Nat8];
        TyKnobs {
            defs: rng.range(0, 8) as usize,
            rec_pct: *rng.pick(&[0, 10, 25, 40]),
            max_depth: rng.range(1, 4) as usize,
            max_fields: rng.range(1, 5) as usize,
            refs: rng.chance(1, 2),
            allow_empty: rng.chance(1, 5),
            allow_reserved: rng.chance(1, 3),
            opt_pct: *rng.pick(&[0, 20, 50]),
            prims: if rng.chance(1, 2) { full } else { few },
        }
    }
}

const WORDS: [&str; 24] = [
    "a", "b", "c", "id", "name", "val", "next", "head", "tail", "ok", "err", "left", "right", "key", "value", "x", "y", "data", "node", "kind", "size", "tag", "foo", "bar",
];

pub fn gen_label(rng: &mut Rng) -> SLabel {
    match rng.below(10) {
        0..=3 => SLabel::Named(rng.pick(&WORDS).to_string()),
        4..=6 => SLabel::Id(rng.below(6) as u32),
        7 => SLabel::Id(u32::MAX - rng.below(3) as u32),
        8 => SLabel::Id(own_hash(*rng.pick(&WORDS))), // numeric twin of a name
        _ => SLabel::Id(rng.below(1 << 20) as u32 + 100),
    }
}

#[derive(Clone, Copy, PartialEq, Eq, Debug)]
enum DefKind {
    Data,
    Func,
    Service,
    PrimAlias,
    /// a definition that is an alias of an optional type: opt t, null or reserved
    OptAlias,
}

pub struct TyGen<'a> {
    pub k: &'a TyKnobs,
    kinds: Vec<DefKind>,
}

pub fn def_name(i: usize) -> String {
    format!("T{i}")
}

impl<'a> TyGen<'a> {
    fn prim(&self, rng: &mut Rng) -> SType {
        if self.k.allow_empty && rng.chance(1, 12) {
            return SType::Prim(Prim::Empty);
        }
        if self.k.allow_reserved && rng.chance(1, 10) {
            return SType::Prim(Prim::Reserved);
        }
        SType::Prim(*rng.pick(&self.k.prims))
    }
    fn data_ref(&self, rng: &mut Rng) -> Option<SType> {
        let c: Vec<usize> = (0..self.kinds.len()).filter(|i| matches!(self.kinds[*i], DefKind::Data | DefKind::PrimAlias | DefKind::OptAlias)).collect();
        if c.is_empty() {
            None
        } else {
            Some(SType::Name(def_name(*rng.pick(&c))))
        }
    }
    fn kind_ref(&self, rng: &mut Rng, k: DefKind) -> Option<SType> {
        let c: Vec<usize> = (0..self.kinds.len()).filter(|i| self.kinds[*i] == k).collect();
        if c.is_empty() {
            None
        } else {
            Some(SType::Name(def_name(*rng.pick(&c))))
        }
    }
    /// a data type (anything that may appear as a field / element / argument)
    pub fn data(&self, rng: &mut Rng, depth: usize) -> SType {
        if rng.below(100) < self.k.rec_pct {
            if let Some(t) = self.data_ref(rng) {
                return t;
            }
        }
        if depth == 0 {
            return self.prim(rng);
        }
        match rng.below(14) {
            0..=3 => self.prim(rng),
            4 | 5 => SType::opt(self.data(rng, depth - 1)),
            6 | 7 => SType::vec(self.data(rng, depth - 1)),
            8..=10 => self.record(rng, depth),
            11 | 12 => self.variant(rng, depth),
            _ => {
                if self.k.refs {
                    match rng.below(3) {
                        0 => self.kind_ref(rng, DefKind::Func).unwrap_or_else(|| self.func(rng, depth - 1)),
                        1 => self.kind_ref(rng, DefKind::Service).unwrap_or_else(|| self.service(rng, depth - 1)),
                        _ => {
                            if rng.chance(1, 2) {
                                self.func(rng, depth - 1)
                            } else {
                                self.service(rng, depth - 1)
                            }
                        }
                    }
                } else {
                    self.prim(rng)
                }
            }
        }
    }
    pub fn record(&self, rng: &mut Rng, depth: usize) -> SType {
        let n = rng.range(0, self.k.max_fields as u64) as usize;
        let tuple = rng.chance(1, 4);
        let mut fs = Vec::new();
        for i in 0..n {
            let l = if tuple { SLabel::Id(i as u32) } else { gen_label(rng) };
            // sometimes a field whose type is optional only through a named alias
            if rng.chance(1, 7) {
                if let Some(t) = self.kind_ref(rng, DefKind::OptAlias) {
                    fs.push((l, t));
                    continue;
                }
            }
            let mut t = self.data(rng, depth.saturating_sub(1));
            if rng.below(100) < self.k.opt_pct && !matches!(t, SType::Opt(_)) {
                t = SType::opt(t);
            }
            fs.push((l, t));
        }
        SType::record(fs)
    }
    pub fn variant(&self, rng: &mut Rng, depth: usize) -> SType {
        let n = rng.range(1, self.k.max_fields as u64) as usize;
        let mut fs = Vec::new();
        for _ in 0..n {
            let t = if rng.chance(1, 3) { SType::Prim(Prim::Null) } else { self.data(rng, depth.saturating_sub(1)) };
            fs.push((gen_label(rng), t));
        }
        SType::variant(fs)
    }
    pub fn func(&self, rng: &mut Rng, depth: usize) -> SType {
        let mode = match rng.below(8) {
            0 => Mode::Query,
            1 => Mode::Oneway,
            2 => Mode::CompositeQuery,
            _ => Mode::Update,
        };
        let na = rng.below(3) as usize;
        let nr = if mode == Mode::Oneway { 0 } else { rng.below(3) as usize };
        SType::Func { args: (0..na).map(|_| self.data(rng, depth)).collect(), rets: (0..nr).map(|_| self.data(rng, depth)).collect(), mode }
    }
    pub fn service(&self, rng: &mut Rng, depth: usize) -> SType {
        let n = rng.below(4) as usize;
        let mut ms = Vec::new();
        for _ in 0..n {
            let name = if rng.chance(1, 6) { rng.pick(&["größe", "名前", "🐂", "naïve", "Ünï"]).to_string() } else { rng.pick(&WORDS).to_string() };
            let t = if rng.chance(1, 4) { self.kind_ref(rng, DefKind::Func).unwrap_or_else(|| self.func(rng, depth)) } else { self.func(rng, depth) };
            ms.push((name, t));
        }
        SType::service(ms)
    }
}

/// Generate a closed, well-formed environment.
pub fn gen_env(rng: &mut Rng, k: &TyKnobs) -> SEnv {
    let mut kinds = Vec::new();
    for _ in 0..k.defs {
        kinds.push(match rng.below(12) {
            0 if k.refs => DefKind::Func,
            1 if k.refs => DefKind::Service,
            2 => DefKind::PrimAlias,
            3 => DefKind::OptAlias,
            _ => DefKind::Data,
        });
    }
    let g = TyGen { k, kinds: kinds.clone() };
    let mut env = SEnv::new();
    for (i, kind) in kinds.iter().enumerate() {
        let body = match kind {
            DefKind::Func => g.func(rng, k.max_depth.saturating_sub(1)),
            DefKind::Service => g.service(rng, k.max_depth.saturating_sub(1)),
            DefKind::PrimAlias => SType::Prim(*rng.pick(&k.prims)),
            DefKind::OptAlias => match rng.below(6) {
                0 => SType::Prim(Prim::Null),
                1 => SType::Prim(Prim::Reserved),
                _ => SType::opt(g.data(rng, k.max_depth.saturating_sub(1))),
            },
            DefKind::Data => {
                // always a constructor at the top so that no name-only cycle can arise
                match rng.below(6) {
                    0 => SType::opt(g.data(rng, k.max_depth.saturating_sub(1))),
                    1 => SType::vec(g.data(rng, k.max_depth.saturating_sub(1))),
                    2 | 3 => g.record(rng, k.max_depth),
                    _ => g.variant(rng, k.max_depth),
                }
            }
        };
        env.0.insert(def_name(i), body);
    }
    env
}

pub fn gen_data_type(rng: &mut Rng, k: &TyKnobs, env: &SEnv) -> SType {
    // reconstruct the kinds from the environment so references stay well-kinded
    let kinds: Vec<DefKind> = (0..env.0.len())
        .take_while(|i| env.0.contains_key(&def_name(*i)))
        .map(|i| match env.0.get(&def_name(i)) {
            Some(SType::Func { .. }) => DefKind::Func,
            Some(SType::Service(_)) => DefKind::Service,
            Some(SType::Prim(Prim::Null)) | Some(SType::Prim(Prim::Reserved)) => DefKind::OptAlias,
            Some(SType::Prim(_)) => DefKind::PrimAlias,
            _ => DefKind::Data,
        })
        .collect();
    let g = TyGen { k, kinds };
    g.data(rng, k.max_depth)
}

// ---------------------------------------------------------------- values

pub fn gen_nat(rng: &mut Rng, max_bits: usize) -> BigU {
    match rng.below(10) {
        0 => BigU::zero(),
        1 => BigU::from_u64(1),
        2..=4 => {
            let k = rng.below(max_bits as u64 + 1) as usize;
            let p = BigU::pow2(k.min(max_bits.saturating_sub(1)));
            match rng.below(3) {
                0 => p,
                1 => p.sub(&BigU::from_u64(1)),
                _ => {
                    if k + 1 < max_bits {
                        p.add(&BigU::from_u64(1))
                    } else {
                        p
                    }
                }
            }
        }
        5..=7 => BigU::from_u64(rng.below(300)),
        _ => {
            let bits = rng.below(max_bits as u64 + 1) as usize;
            let mut b = BigU::zero();
            for i in 0..bits {
                if rng.chance(1, 2) {
                    b.set_bit(i);
                }
            }
            b
        }
    }
}

/// lengths at which the LEB128 length prefix grows by a byte
pub const LEN_BOUNDARIES: [usize; 6] = [127, 128, 129, 16383, 16384, 16385];

pub fn gen_text(rng: &mut Rng) -> String {
    if rng.chance(1, 96) {
        let n = *rng.pick(&LEN_BOUNDARIES);
        let c = (b'a' + rng.below(26) as u8) as char;
        return std::iter::repeat(c).take(n).collect();
    }
    match rng.below(8) {
        0 => String::new(),
        1..=3 => (0..rng.range(1, 8)).map(|_| (b'a' + rng.below(26) as u8) as char).collect(),
        4 => "héllo wörld".to_string(),
        5 => "日本語テキスト".to_string(),
        6 => "🦀 \u{10FFFF} \u{0}\"\\\n".to_string(),
        _ => {
            let n = if rng.chance(1, 6) { rng.range(40, 300) } else { rng.range(1, 40) };
            (0..n).map(|_| char::from_u32(rng.range(0x20, 0x7e) as u32).unwrap()).collect()
        }
    }
}

pub fn gen_principal(rng: &mut Rng) -> Vec<u8> {
    match rng.below(5) {
        0 => vec![],
        1 => rng.bytes(29),
        2 => vec![4],
        _ => {
            let n = rng.below(30) as usize;
            rng.bytes(n)
        }
    }
}

fn fixed_u(rng: &mut Rng, bits: u32) -> u64 {
    let max = if bits == 64 { u64::MAX } else { (1u64 << bits) - 1 };
    match rng.below(6) {
        0 => 0,
        1 => max,
        2 => 1,
        3 => max / 2 + 1,
        _ => rng.next_u64() & max,
    }
}
fn fixed_i(rng: &mut Rng, bits: u32) -> i64 {
    let u = fixed_u(rng, bits);
    // sign-extend
    let sh = 64 - bits;
    ((u << sh) as i64) >> sh
}

/// Minimal node count of an inhabitant per definition (usize::MAX = uninhabited).
pub fn min_sizes(env: &SEnv) -> BTreeMap<String, usize> {
    let mut m: BTreeMap<String, usize> = env.0.keys().map(|k| (k.clone(), usize::MAX)).collect();
    loop {
        let mut changed = false;
        for (n, t) in &env.0 {
            let s = min_size(t, &m);
            if s < m[n] {
                m.insert(n.clone(), s);
                changed = true;
            }
        }
        if !changed {
            return m;
        }
    }
}
pub fn min_size(t: &SType, m: &BTreeMap<String, usize>) -> usize {
    match t {
        SType::Prim(Prim::Empty) => usize::MAX,
        SType::Prim(_) | SType::Opt(_) | SType::Vec(_) | SType::Func { .. } | SType::Service(_) => 1,
        SType::Record(fs) => fs.iter().fold(1usize, |a, (_, t)| a.saturating_add(min_size(t, m))),
        SType::Variant(fs) => fs.iter().map(|(_, t)| min_size(t, m)).min().map(|x| x.saturating_add(1)).unwrap_or(usize::MAX),
        SType::Name(n) => m.get(n).copied().unwrap_or(usize::MAX),
    }
}

pub struct ValGen<'a> {
    pub env: &'a SEnv,
    pub min: BTreeMap<String, usize>,
    /// cap on big-number magnitude (host limits for native receivers)
    pub max_bits: usize,
}

impl<'a> ValGen<'a> {
    pub fn new(env: &'a SEnv, max_bits: usize) -> Self {
        ValGen { env, min: min_sizes(env), max_bits }
    }
    pub fn inhabited(&self, t: &SType) -> bool {
        min_size(t, &self.min) != usize::MAX
    }
    /// An inhabitant of `t`; `budget` is a soft node budget. Returns None only for uninhabited types.
    pub fn gen(&self, rng: &mut Rng, t: &SType, budget: &mut isize) -> Option<AV> {
        *budget -= 1;
        let t = self.env.unfold(t);
        Some(match t {
            SType::Name(_) => return None,
            SType::Prim(p) => match p {
                Prim::Null => AV::Null,
                Prim::Reserved => AV::Reserved,
                Prim::Empty => return None,
                Prim::Bool => AV::Bool(rng.chance(1, 2)),
                Prim::Nat => AV::Nat(gen_nat(rng, self.max_bits).to_decimal()),
                Prim::Int => AV::Int(BigI::new(rng.chance(1, 2), gen_nat(rng, self.max_bits)).to_decimal()),
                Prim::Nat8 => AV::NatN(8, fixed_u(rng, 8)),
                Prim::Nat16 => AV::NatN(16, fixed_u(rng, 16)),
                Prim::Nat32 => AV::NatN(32, fixed_u(rng, 32)),
                Prim::Nat64 => AV::NatN(64, fixed_u(rng, 64)),
                Prim::Int8 => AV::IntN(8, fixed_i(rng, 8)),
                Prim::Int16 => AV::IntN(16, fixed_i(rng, 16)),
                Prim::Int32 => AV::IntN(32, fixed_i(rng, 32)),
                Prim::Int64 => AV::IntN(64, fixed_i(rng, 64)),
                Prim::Float32 => AV::F32(match rng.below(6) {
                    0 => 0,
                    1 => f32::NAN.to_bits(),
                    2 => 0x7fc0_0001,
                    3 => f32::NEG_INFINITY.to_bits(),
                    4 => (-0.0f32).to_bits(),
                    _ => rng.next_u64() as u32,
                }),
                Prim::Float64 => AV::F64(match rng.below(6) {
                    0 => 0,
                    1 => f64::NAN.to_bits(),
                    2 => 0x7ff8_0000_0000_0001,
                    3 => f64::INFINITY.to_bits(),
                    4 => (-0.0f64).to_bits(),
                    _ => rng.next_u64(),
                }),
                Prim::Text => AV::Text(gen_text(rng)),
                Prim::Principal => AV::Principal(gen_principal(rng)),
            },
            SType::Opt(inner) => {
                if *budget <= 0 || !self.inhabited(inner) || rng.chance(1, 3) {
                    AV::Opt(None)
                } else {
                    AV::some(self.gen(rng, inner, budget)?)
                }
            }
            SType::Vec(inner) => {
                if *budget <= 0 || !self.inhabited(inner) {
                    AV::Vec(vec![])
                } else {
                    let n = match rng.below(6) {
                        0 => 0,
                        1 => 1,
                        _ => rng.range(0, (*budget).clamp(1, 7) as u64) as usize,
                    };
                    let mut out = Vec::new();
                    for _ in 0..n {
                        out.push(self.gen(rng, inner, budget)?);
                    }
                    AV::Vec(out)
                }
            }
            SType::Record(fs) => {
                let mut out = Vec::new();
                for (l, t) in fs {
                    out.push((l.id(), self.gen(rng, t, budget)?));
                }
                AV::Record(out)
            }
            SType::Variant(fs) => {
                let live: Vec<&(SLabel, SType)> = fs.iter().filter(|(_, t)| self.inhabited(t)).collect();
                if live.is_empty() {
                    return None;
                }
                let pick = if *budget <= 0 {
                    *live.iter().min_by_key(|(_, t)| min_size(t, &self.min)).unwrap()
                } else {
                    *rng.pick(&live)
                };
                AV::Variant(pick.0.id(), Box::new(self.gen(rng, &pick.1, budget)?))
            }
            SType::Func { .. } => AV::Func(gen_principal(rng), rng.pick(&WORDS).to_string()),
            SType::Service(_) => AV::Service(gen_principal(rng)),
        })
    }
}

// ---------------------------------------------------------------- mutation of types

/// Number of positions (nodes) of a type tree.
fn positions(t: &SType) -> usize {
    t.nodes()
}

/// Apply `f` at the `k`-th node (pre-order) of `t`.
pub fn rewrite_at(t: &SType, k: &mut usize, f: &mut dyn FnMut(&SType) -> SType) -> SType {
    if *k == 0 {
        *k = usize::MAX;
        return f(t);
    }
    if *k != usize::MAX {
        *k -= 1;
    }
    match t {
        SType::Prim(_) | SType::Name(_) => t.clone(),
        SType::Opt(x) => SType::opt(rewrite_at(x, k, f)),
        SType::Vec(x) => SType::vec(rewrite_at(x, k, f)),
        SType::Record(fs) => SType::record(fs.iter().map(|(l, x)| (l.clone(), rewrite_at(x, k, f))).collect()),
        SType::Variant(fs) => SType::variant(fs.iter().map(|(l, x)| (l.clone(), rewrite_at(x, k, f))).collect()),
        SType::Func { args, rets, mode } => {
            let args = args.iter().map(|x| rewrite_at(x, k, f)).collect();
            let rets = rets.iter().map(|x| rewrite_at(x, k, f)).collect();
            SType::Func { args, rets, mode: *mode }
        }
        SType::Service(ms) => SType::service(
            ms.iter()
                .map(|(n, x)| {
                    // method types must stay functions: only rewrite below them
                    let nx = match x {
                        SType::Func { .. } => {
                            if *k == 0 {
                                // do not replace the function node itself by a non-function
                                *k = 1;
                            }
                            rewrite_at(x, k, f)
                        }
                        other => {
                            if *k != usize::MAX && *k > 0 {
                                *k -= 1;
                            } else if *k == 0 {
                                *k = usize::MAX; // name of a function definition: leave alone
                            }
                            other.clone()
                        }
                    };
                    (n.clone(), nx)
                })
                .collect(),
        ),
    }
}

/// One small random edit somewhere in `t` (used to create related-but-different types).
pub fn mutate(rng: &mut Rng, t: &SType, prims: &[Prim]) -> SType {
    let n = positions(t);
    let mut k = rng.usize(n);
    let choice = rng.below(12);
    let p = *rng.pick(prims);
    let lab = gen_label(rng);
    let r2 = rng.next_u64();
    let mut f = |x: &SType| -> SType {
        match (choice, x) {
            (0, SType::Prim(Prim::Nat)) => SType::Prim(Prim::Int),
            (0, SType::Prim(Prim::Int)) => SType::Prim(Prim::Nat),
            (0 | 1, SType::Prim(_)) => SType::Prim(p),
            (2, SType::Opt(inner)) => (**inner).clone(),
            (2 | 3, x) if !matches!(x, SType::Func { .. }) => SType::opt(x.clone()),
            (4, SType::Record(fs)) => {
                let mut fs = fs.clone();
                fs.push((lab.clone(), SType::opt(SType::Prim(p))));
                SType::record(fs)
            }
            (5, SType::Record(fs)) | (5, SType::Variant(fs)) => {
                let mut fs = fs.clone();
                fs.push((lab.clone(), SType::Prim(p)));
                if matches!(x, SType::Record(_)) {
                    SType::record(fs)
                } else {
                    SType::variant(fs)
                }
            }
            (6, SType::Record(fs)) if !fs.is_empty() => {
                let mut fs = fs.clone();
                fs.remove((r2 % fs.len() as u64) as usize);
                SType::record(fs)
            }
            (6, SType::Variant(fs)) if fs.len() > 1 => {
                let mut fs = fs.clone();
                fs.remove((r2 % fs.len() as u64) as usize);
                SType::variant(fs)
            }
            (7, SType::Func { args, rets, mode }) => {
                let mut args = args.clone();
                let mut rets = rets.clone();
                match r2 % 5 {
                    0 => args.push(SType::opt(SType::Prim(p))),
                    1 => args.push(SType::Prim(p)),
                    2 if *mode != Mode::Oneway => rets.push(SType::Prim(p)),
                    3 => {
                        args.pop();
                    }
                    _ => {
                        rets.pop();
                    }
                }
                SType::Func { args, rets, mode: *mode }
            }
            (8, SType::Func { args, rets, mode }) => {
                let m = match mode {
                    Mode::Update => Mode::Query,
                    Mode::Query => Mode::Update,
                    Mode::CompositeQuery => Mode::Query,
                    Mode::Oneway => Mode::Oneway,
                };
                SType::Func { args: args.clone(), rets: rets.clone(), mode: m }
            }
            (9, SType::Service(ms)) => {
                let mut ms = ms.clone();
                if r2 % 2 == 0 || ms.is_empty() {
                    ms.push((format!("m{}", r2 % 7), SType::Func { args: vec![SType::Prim(p)], rets: vec![], mode: Mode::Update }));
                } else {
                    ms.remove((r2 % ms.len() as u64) as usize);
                }
                SType::service(ms)
            }
            (10, SType::Vec(inner)) => SType::opt((**inner).clone()),
            (11, x) if !matches!(x, SType::Func { .. }) => SType::Prim(Prim::Reserved),
            (_, SType::Prim(_)) => SType::Prim(p),
            (_, x) => x.clone(),
        }
    };
    rewrite_at(t, &mut k, &mut f)
}

/// Rename every definition (and every reference) with `f`.
pub fn rename_type(t: &SType, f: &dyn Fn(&str) -> String) -> SType {
    match t {
        SType::Prim(_) => t.clone(),
        SType::Name(n) => SType::Name(f(n)),
        SType::Opt(x) => SType::opt(rename_type(x, f)),
        SType::Vec(x) => SType::vec(rename_type(x, f)),
        SType::Record(fs) => SType::Record(fs.iter().map(|(l, x)| (l.clone(), rename_type(x, f))).collect()),
        SType::Variant(fs) => SType::Variant(fs.iter().map(|(l, x)| (l.clone(), rename_type(x, f))).collect()),
        SType::Func { args, rets, mode } => SType::Func { args: args.iter().map(|x| rename_type(x, f)).collect(), rets: rets.iter().map(|x| rename_type(x, f)).collect(), mode: *mode },
        SType::Service(ms) => SType::Service(ms.iter().map(|(n, x)| (n.clone(), rename_type(x, f))).collect()),
    }
}
pub fn rename_env(env: &SEnv, f: &dyn Fn(&str) -> String) -> SEnv {
    SEnv(env.0.iter().map(|(k, v)| (f(k), rename_type(v, f))).collect())
}

/// All sub-terms of a type (including itself).
pub fn subterms(t: &SType, out: &mut Vec<SType>) {
    out.push(t.clone());
    match t {
        SType::Prim(_) | SType::Name(_) => {}
        SType::Opt(x) | SType::Vec(x) => subterms(x, out),
        SType::Record(fs) | SType::Variant(fs) => fs.iter().for_each(|(_, x)| subterms(x, out)),
        SType::Func { args, rets, .. } => args.iter().chain(rets.iter()).for_each(|x| subterms(x, out)),
        SType::Service(ms) => ms.iter().for_each(|(_, x)| subterms(x, out)),
    }
}

/// Does `t` (and everything it reaches) only mention bound names?
pub fn closed(env: &SEnv, t: &SType) -> bool {
    let mut st = Vec::new();
    subterms(t, &mut st);
    st.iter().all(|x| match x {
        SType::Name(n) => env.0.contains_key(n),
        _ => true,
    })
}
pub fn env_closed(env: &SEnv) -> bool {
    env.0.values().all(|t| closed(env, t))
}

// ---------------------------------------------------------------- upgrade steps (DESIGN.md A.4)

/// Rewrite `t` at a random position into something *meant* to be a subtype
/// (`down = true`) or a supertype (`down = false`) of it. Whether it really is one
/// is decided by the real checker, which gates every deployment.
pub fn upgrade_step(rng: &mut Rng, env: &SEnv, t: &SType, down: bool, prims: &[Prim]) -> (SType, &'static str) {
    // draw (position, rule) until a rule applies at the position
    for _ in 0..12 {
        let (t2, kind) = upgrade_step_once(rng, env, t, down, prims);
        if kind != "none" {
            return (t2, kind);
        }
    }
    (t.clone(), "none")
}

fn upgrade_step_once(rng: &mut Rng, env: &SEnv, t: &SType, down: bool, prims: &[Prim]) -> (SType, &'static str) {
    let n = t.nodes();
    let mut k = rng.usize(n);
    let choice = rng.below(10);
    let lab = gen_label(rng);
    let p = *rng.pick(prims);
    let r2 = rng.next_u64();
    let mut kind: &'static str = "none";
    // definitions that are optional only through their name (opt t, null, reserved)
    let opt_aliases: Vec<String> = env.0.iter().filter(|(_, b)| matches!(b, SType::Opt(_) | SType::Prim(Prim::Null) | SType::Prim(Prim::Reserved))).map(|(n, _)| n.clone()).collect();
    let mut f = |x: &SType| -> SType {
        match (down, choice, x) {
            // --- specialise (new <: old)
            (true, 0 | 1, SType::Prim(Prim::Int)) => {
                kind = "int->nat";
                SType::Prim(Prim::Nat)
            }
            (true, 2 | 3, SType::Record(fs)) => {
                kind = "add-field";
                let mut fs = fs.clone();
                fs.push((lab.clone(), if r2 % 2 == 0 { SType::Prim(p) } else { SType::opt(SType::Prim(p)) }));
                SType::record(fs)
            }
            (true, 4, SType::Variant(fs)) if fs.len() > 1 => {
                kind = "drop-case";
                let mut fs = fs.clone();
                fs.remove((r2 % fs.len() as u64) as usize);
                SType::variant(fs)
            }
            (true, 5, SType::Opt(inner)) => {
                kind = "opt->inner";
                (**inner).clone()
            }
            (true, 6, SType::Prim(Prim::Reserved)) => {
                kind = "reserved->t";
                SType::Prim(p)
            }
            (true, 7, SType::Record(fs)) if fs.iter().any(|(_, t)| matches!(t, SType::Opt(_))) => {
                kind = "drop-optional-field";
                let mut fs = fs.clone();
                if let Some(i) = fs.iter().position(|(_, t)| matches!(t, SType::Opt(_))) {
                    fs.remove(i);
                }
                SType::record(fs)
            }
            (true, 8, SType::Opt(inner)) if matches!(**inner, SType::Variant(_)) => {
                // the unusual rule: a case may be ADDED under opt
                kind = "add-case-under-opt";
                if let SType::Variant(fs) = &**inner {
                    let mut fs = fs.clone();
                    fs.push((lab.clone(), SType::Prim(p)));
                    SType::opt(SType::variant(fs))
                } else {
                    x.clone()
                }
            }
            // --- generalise (old <: new)
            (false, 0 | 1, SType::Prim(Prim::Nat)) => {
                kind = "nat->int";
                SType::Prim(Prim::Int)
            }
            (false, 2, SType::Record(fs)) => {
                let mut fs = fs.clone();
                if !opt_aliases.is_empty() && r2 % 2 == 0 {
                    kind = "add-optional-field-through-alias";
                    // a label that tends to sort before the fields already there
                    let l = if r2 % 4 == 0 { SLabel::Id((r2 >> 8) as u32 % 3) } else { lab.clone() };
                    fs.push((l, SType::Name(opt_aliases[(r2 >> 16) as usize % opt_aliases.len()].clone())));
                } else {
                    kind = "add-optional-field";
                    fs.push((lab.clone(), SType::opt(SType::Prim(p))));
                }
                SType::record(fs)
            }
            (false, 3, SType::Record(fs)) if !fs.is_empty() => {
                kind = "drop-field";
                let mut fs = fs.clone();
                fs.remove((r2 % fs.len() as u64) as usize);
                SType::record(fs)
            }
            (false, 4, SType::Variant(fs)) => {
                kind = "add-case";
                let mut fs = fs.clone();
                fs.push((lab.clone(), SType::Prim(p)));
                SType::variant(fs)
            }
            (false, 5 | 6, x) if !matches!(x, SType::Opt(_) | SType::Prim(Prim::Null) | SType::Prim(Prim::Reserved) | SType::Func { .. }) => {
                kind = "wrap-in-opt";
                SType::opt(x.clone())
            }
            (false, 7, x) if !matches!(x, SType::Func { .. }) => {
                kind = "to-reserved";
                SType::Prim(Prim::Reserved)
            }
            (false, 8, SType::Opt(inner)) if matches!(**inner, SType::Variant(_)) => {
                kind = "drop-case-under-opt";
                if let SType::Variant(fs) = &**inner {
                    let mut fs = fs.clone();
                    if fs.len() > 1 {
                        fs.remove((r2 % fs.len() as u64) as usize);
                    }
                    SType::opt(SType::variant(fs))
                } else {
                    x.clone()
                }
            }
            // --- reference types, either direction
            (_, 9, SType::Func { args, rets, mode }) => {
                kind = "func-ref-signature";
                let mut args = args.clone();
                let mut rets = rets.clone();
                match r2 % 4 {
                    0 => args.push(SType::opt(SType::Prim(p))),
                    1 if *mode != Mode::Oneway => rets.push(SType::Prim(p)),
                    2 => {
                        args.pop();
                    }
                    _ => {
                        rets.pop();
                    }
                }
                SType::Func { args, rets, mode: *mode }
            }
            (_, 9, SType::Service(ms)) => {
                kind = "service-ref-methods";
                let mut ms = ms.clone();
                if r2 % 2 == 0 || ms.is_empty() {
                    ms.push((format!("m{}", r2 % 5), SType::Func { args: vec![], rets: vec![SType::Prim(p)], mode: Mode::Query }));
                } else {
                    ms.remove((r2 % ms.len() as u64) as usize);
                }
                SType::service(ms)
            }
            (_, _, x) => x.clone(),
        }
    };
    let out = rewrite_at(t, &mut k, &mut f);
    (out, kind)
}
