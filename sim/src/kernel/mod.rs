pub mod alloc;
pub mod guard;
pub mod io;
pub mod report;
pub mod rng;
pub mod sup;
