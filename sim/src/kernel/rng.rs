//! One-integer determinism: xoshiro256** seeded through splitmix64.
//! No dependency on the `rand` crate so that algorithm changes there can never
//! shift a schedule.

#[derive(Clone, Debug)]
pub struct Rng {
    s: [u64; 4],
}

pub fn splitmix64(x: &mut u64) -> u64 {
    *x = x.wrapping_add(0x9E37_79B9_7F4A_7C15);
    let mut z = *x;
    z = (z ^ (z >> 30)).wrapping_mul(0xBF58_476D_1CE4_E5B9);
    z = (z ^ (z >> 27)).wrapping_mul(0x94D0_49BB_1331_11EB);
    z ^ (z >> 31)
}

/// FNV-1a, used for stream derivation and event-log hashes.
pub fn fnv1a(bytes: &[u8]) -> u64 {
    let mut h: u64 = 0xcbf2_9ce4_8422_2325;
    for b in bytes {
        h ^= *b as u64;
        h = h.wrapping_mul(0x0000_0100_0000_01B3);
    }
    h
}

/// mix(VERIF_SEED, property, scenario kind, run index) -> stream seed
pub fn mix(seed: u64, tags: &[&str], run: u64) -> u64 {
    let mut h = seed ^ 0x5851_F42D_4C95_7F2D;
    for t in tags {
        h = h.rotate_left(17) ^ fnv1a(t.as_bytes());
        let mut x = h;
        h = splitmix64(&mut x);
    }
    h ^= run.wrapping_mul(0xD6E8_FEB8_6659_FD93);
    let mut x = h;
    splitmix64(&mut x)
}

impl Rng {
    pub fn new(seed: u64) -> Self {
        let mut x = seed;
        let s = [
            splitmix64(&mut x),
            splitmix64(&mut x),
            splitmix64(&mut x),
            splitmix64(&mut x),
        ];
        Rng { s }
    }
    /// Independent sub-stream: adding draws to one never shifts another.
    pub fn split(&self, tag: &str) -> Rng {
        Rng::new(self.s[0] ^ self.s[2].rotate_left(23) ^ fnv1a(tag.as_bytes()))
    }
    pub fn next_u64(&mut self) -> u64 {
        let result = self.s[1].wrapping_mul(5).rotate_left(7).wrapping_mul(9);
        let t = self.s[1] << 17;
        self.s[2] ^= self.s[0];
        self.s[3] ^= self.s[1];
        self.s[1] ^= self.s[2];
        self.s[0] ^= self.s[3];
        self.s[2] ^= t;
        self.s[3] = self.s[3].rotate_left(45);
        result
    }
    /// uniform in 0..n (n > 0)
    pub fn below(&mut self, n: u64) -> u64 {
        debug_assert!(n > 0);
        // multiply-shift; bias is irrelevant here
        ((self.next_u64() as u128 * n as u128) >> 64) as u64
    }
    pub fn range(&mut self, lo: u64, hi_incl: u64) -> u64 {
        lo + self.below(hi_incl - lo + 1)
    }
    pub fn usize(&mut self, n: usize) -> usize {
        self.below(n as u64) as usize
    }
    /// true with probability num/den
    pub fn chance(&mut self, num: u64, den: u64) -> bool {
        self.below(den) < num
    }
    pub fn pick<'a, T>(&mut self, xs: &'a [T]) -> &'a T {
        &xs[self.usize(xs.len())]
    }
    pub fn bytes(&mut self, n: usize) -> Vec<u8> {
        let mut v = Vec::with_capacity(n);
        while v.len() < n {
            let x = self.next_u64().to_le_bytes();
            let k = (n - v.len()).min(8);
            v.extend_from_slice(&x[..k]);
        }
        v
    }
    pub fn shuffle<T>(&mut self, xs: &mut [T]) {
        for i in (1..xs.len()).rev() {
            let j = self.usize(i + 1);
            xs.swap(i, j);
        }
    }
    /// weighted choice; weights must not all be zero
    pub fn weighted(&mut self, w: &[u32]) -> usize {
        let total: u64 = w.iter().map(|x| *x as u64).sum();
        let mut r = self.below(total.max(1));
        for (i, x) in w.iter().enumerate() {
            if r < *x as u64 {
                return i;
            }
            r -= *x as u64;
        }
        w.len() - 1
    }
}
