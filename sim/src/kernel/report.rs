//! Violations, per-run context, statistics and the evidence file.

use crate::kernel::rng::fnv1a;
use serde::{Deserialize, Serialize};
use std::collections::{BTreeMap, BTreeSet};

pub const DEFAULT_SEED: u64 = 20260923;
/// cap on the number of distinct-state hashes kept per worker
pub const DISTINCT_CAP: usize = 400_000;

#[derive(Clone, Copy, Debug, PartialEq, Eq, Serialize, Deserialize)]
pub enum Tier {
    Quick,
    Thorough,
}
impl Tier {
    pub fn parse(s: &str) -> Option<Tier> {
        match s {
            "quick" => Some(Tier::Quick),
            "thorough" => Some(Tier::Thorough),
            _ => None,
        }
    }
    pub fn name(&self) -> &'static str {
        match self {
            Tier::Quick => "quick",
            Tier::Thorough => "thorough",
        }
    }
}

#[derive(Clone, Debug, Serialize, Deserialize, PartialEq, Eq)]
pub struct Violation {
    pub property: String,
    /// stable invariant identifier, e.g. "roundtrip-value"
    pub invariant: String,
    /// stable identification of the failing input (used by known-findings)
    pub key: String,
    /// human readable
    pub detail: String,
}

/// Event log of one run. Only a hash is kept unless `keep` is set (replay).
pub struct EventLog {
    pub hash: u64,
    pub n: u64,
    pub lines: Option<Vec<String>>,
}
impl EventLog {
    pub fn new(keep: bool) -> Self {
        EventLog { hash: 0xcbf2_9ce4_8422_2325, n: 0, lines: if keep { Some(Vec::new()) } else { None } }
    }
    pub fn ev(&mut self, s: &str) {
        self.n += 1;
        self.hash = (self.hash.rotate_left(5) ^ fnv1a(s.as_bytes())).wrapping_mul(0x0000_0100_0000_01B3);
        if let Some(l) = &mut self.lines {
            l.push(s.to_string());
        }
    }
}

#[derive(Clone, Debug, Default, Serialize, Deserialize)]
pub struct Stats {
    pub runs: u64,
    pub steps: u64,
    pub sim_ticks: u64,
    /// fault kind -> times it actually fired
    pub faults: BTreeMap<String, u64>,
    /// "this rare condition was hit" probes
    pub probes: BTreeMap<String, u64>,
    /// workload counters (ops by kind etc.)
    pub ops: BTreeMap<String, u64>,
    /// hashes under the engine's stated distinct-state measure
    pub distinct: BTreeSet<u64>,
    pub distinct_overflow: u64,
    pub nontrivial_runs: u64,
    pub inconclusive: u64,
    pub samples: Vec<serde_json::Value>,
    /// engine specific numeric facts (max observed ratios etc.)
    pub maxima: BTreeMap<String, f64>,
    pub exhaustive_parts: BTreeMap<String, u64>,
}

impl Stats {
    pub fn fault(&mut self, k: &str, n: u64) {
        if n > 0 {
            *self.faults.entry(k.to_string()).or_insert(0) += n;
        }
    }
    pub fn probe(&mut self, k: &str) {
        *self.probes.entry(k.to_string()).or_insert(0) += 1;
    }
    pub fn probe_n(&mut self, k: &str, n: u64) {
        *self.probes.entry(k.to_string()).or_insert(0) += n;
    }
    pub fn declare_probe(&mut self, k: &str) {
        self.probes.entry(k.to_string()).or_insert(0);
    }
    pub fn op(&mut self, k: &str) {
        *self.ops.entry(k.to_string()).or_insert(0) += 1;
    }
    pub fn state(&mut self, h: u64) {
        if self.distinct.len() < DISTINCT_CAP {
            self.distinct.insert(h);
        } else if !self.distinct.contains(&h) {
            self.distinct_overflow += 1;
        }
    }
    pub fn state_str(&mut self, s: &str) {
        self.state(fnv1a(s.as_bytes()));
    }
    pub fn max(&mut self, k: &str, v: f64) {
        let e = self.maxima.entry(k.to_string()).or_insert(v);
        if v > *e {
            *e = v;
        }
    }
    pub fn sample(&mut self, v: serde_json::Value) {
        if self.samples.len() < 6 {
            self.samples.push(v);
        }
    }
    pub fn merge(&mut self, o: Stats) {
        self.runs += o.runs;
        self.steps += o.steps;
        self.sim_ticks += o.sim_ticks;
        for (k, v) in o.faults {
            *self.faults.entry(k).or_insert(0) += v;
        }
        for (k, v) in o.probes {
            *self.probes.entry(k).or_insert(0) += v;
        }
        for (k, v) in o.ops {
            *self.ops.entry(k).or_insert(0) += v;
        }
        for h in o.distinct {
            self.state(h);
        }
        self.distinct_overflow += o.distinct_overflow;
        self.nontrivial_runs += o.nontrivial_runs;
        self.inconclusive += o.inconclusive;
        for s in o.samples {
            if self.samples.len() < 8 {
                self.samples.push(s);
            }
        }
        for (k, v) in o.maxima {
            self.max(&k, v);
        }
        for (k, v) in o.exhaustive_parts {
            *self.exhaustive_parts.entry(k).or_insert(0) += v;
        }
    }
}

/// What an engine gets for one run.
pub struct Ctx<'a> {
    pub stats: &'a mut Stats,
    pub log: EventLog,
    pub violations: Vec<Violation>,
    pub property: String,
}
impl<'a> Ctx<'a> {
    pub fn new(stats: &'a mut Stats, property: &str, keep_log: bool) -> Self {
        Ctx { stats, log: EventLog::new(keep_log), violations: Vec::new(), property: property.to_string() }
    }
    pub fn ev(&mut self, s: &str) {
        self.log.ev(s);
        self.stats.steps += 1;
    }
    pub fn violate(&mut self, invariant: &str, key: &str, detail: String) {
        self.log.ev(&format!("VIOLATION {invariant} {key}"));
        // one report per invariant per run is enough
        if self.violations.iter().any(|v| v.invariant == invariant) {
            return;
        }
        self.violations.push(Violation {
            property: self.property.clone(),
            invariant: invariant.to_string(),
            key: key.to_string(),
            detail,
        });
    }
}

#[derive(Clone, Debug, Serialize, Deserialize)]
pub struct FoundViolation {
    pub run: u64,
    pub violation: Violation,
    pub scenario: serde_json::Value,
    /// found by a worker built with the release profile
    #[serde(default)]
    pub release: bool,
}

#[derive(Clone, Debug, Serialize, Deserialize)]
pub struct ReplayFile {
    pub property: String,
    pub invariant: String,
    pub key: String,
    pub detail: String,
    pub verif_seed: u64,
    pub run: u64,
    pub minimised: bool,
    pub original_ops: usize,
    pub ops: usize,
    /// build profile of the worker that found it ("debug" or "release")
    #[serde(default)]
    pub profile: String,
    pub scenario: serde_json::Value,
}

#[derive(Clone, Debug, Serialize, Deserialize)]
pub struct WorkerResult {
    pub from: u64,
    pub to: u64,
    pub stats: Stats,
    pub found: Vec<FoundViolation>,
    pub log_hashes: Vec<(u64, u64)>,
}

pub struct PropertyMeta {
    pub id: &'static str,
    pub level: &'static str,
    pub engine: &'static str,
    pub rule: &'static str,
    pub assumptions: &'static [&'static str],
    pub real_components: &'static [&'static str],
    pub stub_components: &'static [&'static str],
}

#[allow(clippy::too_many_arguments)]
pub fn write_evidence(
    path: &str,
    meta: &PropertyMeta,
    tier: Tier,
    seed: u64,
    stats: &Stats,
    wall_s: f64,
    violations: usize,
    known: usize,
    extra: serde_json::Value,
) -> std::io::Result<()> {
    let stuck: Vec<&String> = stats.probes.iter().filter(|(_, v)| **v == 0).map(|(k, _)| k).collect();
    let per_hour = if wall_s > 0.0 { (stats.runs as f64 / wall_s * 3600.0) as u64 } else { 0 };
    let exhaustive = !stats.exhaustive_parts.is_empty() && extra.get("exhaustive").and_then(|v| v.as_bool()).unwrap_or(false);
    let mut coverage = serde_json::json!({
        "evaluations": stats.runs.max(1),
        "distinct_nontrivial": stats.distinct.len() as u64 + stats.distinct_overflow,
        "rule": meta.rule,
        "samples": if stats.samples.is_empty() { vec![serde_json::json!("(no sample recorded)")] } else { stats.samples.clone() },
        "simulated_runs": stats.runs,
        "steps": stats.steps,
        "simulated_ticks": stats.sim_ticks,
        "simulated_time_note": "candid reads no clock; ticks are logical delivery/step counters of the simulator",
        "runs_per_hour": per_hour,
        "seeds_per_hour": per_hour,
        "faults_fired": stats.faults,
        "probes": stats.probes,
        "probes_stuck_at_zero": stuck,
        "workload_ops": stats.ops,
        "nontrivial_runs": stats.nontrivial_runs,
        "inconclusive_runs": stats.inconclusive,
        "distinct_cap_overflow": stats.distinct_overflow,
        "measured_maxima": stats.maxima,
        "exhaustive_parts": stats.exhaustive_parts,
        "exhaustive": exhaustive,
        "engine": meta.engine,
        "components_real": meta.real_components,
        "components_stubbed": meta.stub_components,
        "known_findings_matched": known,
    });
    if let (Some(c), Some(e)) = (coverage.as_object_mut(), extra.as_object()) {
        for (k, v) in e {
            if k != "exhaustive" {
                c.insert(k.clone(), v.clone());
            }
        }
    }
    let ev = serde_json::json!({
        "property_id": meta.id,
        "tier": tier.name(),
        "seed": seed,
        "level": meta.level,
        "coverage": coverage,
        "assumptions": meta.assumptions,
        "wall_s": (wall_s * 1000.0).round() / 1000.0,
        "violations": violations,
    });
    if let Some(dir) = std::path::Path::new(path).parent() {
        std::fs::create_dir_all(dir)?;
    }
    std::fs::write(path, serde_json::to_string_pretty(&ev).unwrap() + "\n")
}

/// Parse JSON without serde_json's nesting limit: scenarios may hold deliberately deep types.
pub fn parse_json<T: serde::de::DeserializeOwned>(bytes: &[u8]) -> Result<T, String> {
    let mut de = serde_json::Deserializer::from_slice(bytes);
    de.disable_recursion_limit();
    let v = T::deserialize(&mut de).map_err(|e| e.to_string())?;
    de.end().map_err(|e| e.to_string())?;
    Ok(v)
}
