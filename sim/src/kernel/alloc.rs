//! Counting global allocator: per-thread live bytes, peak, largest request.
//! Allocation *failure* is not injected (it aborts instead of unwinding); a
//! single request above `REFUSE_ABOVE` is refused so that an allocation bomb
//! shows up as a contained worker death instead of taking the machine down.

use std::alloc::{GlobalAlloc, Layout, System};
use std::cell::Cell;

pub const REFUSE_ABOVE: usize = 2 << 30;

thread_local! {
    static LIVE: Cell<isize> = const { Cell::new(0) };
    static PEAK: Cell<isize> = const { Cell::new(0) };
    static LARGEST: Cell<usize> = const { Cell::new(0) };
    static COUNT: Cell<u64> = const { Cell::new(0) };
}

pub struct Counting;

#[inline]
fn on_alloc(size: usize) {
    let _ = LIVE.try_with(|l| {
        let v = l.get() + size as isize;
        l.set(v);
        let _ = PEAK.try_with(|p| {
            if v > p.get() {
                p.set(v)
            }
        });
    });
    let _ = LARGEST.try_with(|m| {
        if size > m.get() {
            m.set(size)
        }
    });
    let _ = COUNT.try_with(|c| c.set(c.get() + 1));
}
#[inline]
fn on_free(size: usize) {
    let _ = LIVE.try_with(|l| l.set(l.get() - size as isize));
}

unsafe impl GlobalAlloc for Counting {
    unsafe fn alloc(&self, layout: Layout) -> *mut u8 {
        if layout.size() > REFUSE_ABOVE {
            return std::ptr::null_mut();
        }
        let p = System.alloc(layout);
        if !p.is_null() {
            on_alloc(layout.size());
        }
        p
    }
    unsafe fn alloc_zeroed(&self, layout: Layout) -> *mut u8 {
        if layout.size() > REFUSE_ABOVE {
            return std::ptr::null_mut();
        }
        let p = System.alloc_zeroed(layout);
        if !p.is_null() {
            on_alloc(layout.size());
        }
        p
    }
    unsafe fn dealloc(&self, ptr: *mut u8, layout: Layout) {
        on_free(layout.size());
        System.dealloc(ptr, layout)
    }
    unsafe fn realloc(&self, ptr: *mut u8, layout: Layout, new_size: usize) -> *mut u8 {
        if new_size > REFUSE_ABOVE {
            return std::ptr::null_mut();
        }
        let p = System.realloc(ptr, layout, new_size);
        if !p.is_null() {
            on_free(layout.size());
            on_alloc(new_size);
        }
        p
    }
}

/// Start a measurement on this thread: peak := live.
pub fn mark() -> isize {
    let live = LIVE.with(|l| l.get());
    PEAK.with(|p| p.set(live));
    LARGEST.with(|m| m.set(0));
    COUNT.with(|c| c.set(0));
    live
}
/// (peak above the mark, largest single request, number of allocations) since `mark`.
pub fn since(mark: isize) -> (usize, usize, u64) {
    let peak = PEAK.with(|p| p.get());
    ((peak - mark).max(0) as usize, LARGEST.with(|m| m.get()), COUNT.with(|c| c.get()))
}
