//! The stream seams: `SimWriter` / `SimReader` implement `io::Write` / `io::Read`
//! and follow an explicit, serialisable fault plan.

use crate::kernel::rng::Rng;
use serde::{Deserialize, Serialize};
use std::io;

#[derive(Serialize, Deserialize, Clone, Debug, PartialEq, Eq)]
pub enum IoStep {
    /// transfer as much as asked
    Full,
    /// transfer at most n (>=1) bytes
    Short(usize),
    /// return ErrorKind::Interrupted, transfer nothing
    Intr,
}

#[derive(Serialize, Deserialize, Clone, Debug, PartialEq, Eq)]
pub enum Stop {
    /// reader: Ok(0); writer: Ok(0) (=> WriteZero from write_all)
    Eof,
    /// hard error ("disk full" / "connection reset")
    Error,
}

#[derive(Serialize, Deserialize, Clone, Debug, Default, PartialEq, Eq)]
pub struct IoPlan {
    /// one entry consumed per read()/write() call; when exhausted every call is `Full`
    pub steps: Vec<IoStep>,
    /// after `.0` bytes have been transferred, every further call stops as `.1`
    pub stop: Option<(usize, Stop)>,
}

impl IoPlan {
    pub fn clean() -> Self {
        IoPlan::default()
    }
    pub fn is_clean(&self) -> bool {
        self.steps.is_empty() && self.stop.is_none()
    }
    /// Seeded plan for a stream of about `len` bytes.
    pub fn random(rng: &mut Rng, len: usize, allow_stop: bool) -> Self {
        let mut steps = Vec::new();
        let style = rng.below(5);
        let n = match style {
            0 => 0,
            _ => rng.range(1, (len as u64 + 2).min(48)) as usize,
        };
        for _ in 0..n {
            steps.push(match (style, rng.below(10)) {
                (1, _) => IoStep::Short(1),
                (2, 0..=3) => IoStep::Intr,
                (2, _) => IoStep::Short(rng.range(1, 3) as usize),
                (_, 0..=1) => IoStep::Intr,
                (_, 2..=6) => IoStep::Short(rng.range(1, 9) as usize),
                _ => IoStep::Full,
            });
        }
        let stop = if allow_stop && rng.chance(1, 3) {
            let at = rng.below(len as u64 + 2) as usize;
            Some((at, if rng.chance(1, 2) { Stop::Eof } else { Stop::Error }))
        } else {
            None
        };
        IoPlan { steps, stop }
    }
}

#[derive(Clone, Debug, Default, Serialize, Deserialize, PartialEq, Eq)]
pub struct IoFired {
    pub short: u64,
    pub intr: u64,
    pub eof: u64,
    pub error: u64,
    pub calls: u64,
}

pub struct SimWriter {
    pub plan: IoPlan,
    pub accepted: Vec<u8>,
    pub fired: IoFired,
    step: usize,
    pub flushed: u64,
}

impl SimWriter {
    pub fn new(plan: IoPlan) -> Self {
        SimWriter { plan, accepted: Vec::new(), fired: IoFired::default(), step: 0, flushed: 0 }
    }
}

impl io::Write for SimWriter {
    fn write(&mut self, buf: &[u8]) -> io::Result<usize> {
        self.fired.calls += 1;
        let mut room = usize::MAX;
        if let Some((at, kind)) = &self.plan.stop {
            if self.accepted.len() >= *at {
                return match kind {
                    Stop::Eof => {
                        self.fired.eof += 1;
                        Ok(0)
                    }
                    Stop::Error => {
                        self.fired.error += 1;
                        Err(io::Error::new(io::ErrorKind::Other, "sim: device full"))
                    }
                };
            }
            room = *at - self.accepted.len();
        }
        let st = self.plan.steps.get(self.step).cloned().unwrap_or(IoStep::Full);
        self.step += 1;
        let n = match st {
            IoStep::Intr => {
                self.fired.intr += 1;
                return Err(io::Error::new(io::ErrorKind::Interrupted, "sim: EINTR"));
            }
            IoStep::Short(k) => {
                let n = buf.len().min(k.max(1)).min(room);
                if n < buf.len() {
                    self.fired.short += 1;
                }
                n
            }
            IoStep::Full => {
                let n = buf.len().min(room);
                if n < buf.len() {
                    self.fired.short += 1;
                }
                n
            }
        };
        self.accepted.extend_from_slice(&buf[..n]);
        Ok(n)
    }
    fn flush(&mut self) -> io::Result<()> {
        self.flushed += 1;
        Ok(())
    }
}

pub struct SimReader<'a> {
    pub plan: IoPlan,
    pub data: &'a [u8],
    pub pos: usize,
    pub fired: IoFired,
    step: usize,
}

impl<'a> SimReader<'a> {
    pub fn new(data: &'a [u8], plan: IoPlan) -> Self {
        SimReader { plan, data, pos: 0, fired: IoFired::default(), step: 0 }
    }
}

impl io::Read for SimReader<'_> {
    fn read(&mut self, buf: &mut [u8]) -> io::Result<usize> {
        self.fired.calls += 1;
        if buf.is_empty() {
            return Ok(0);
        }
        let mut room = self.data.len() - self.pos;
        if let Some((at, kind)) = &self.plan.stop {
            if self.pos >= *at {
                return match kind {
                    Stop::Eof => {
                        self.fired.eof += 1;
                        Ok(0)
                    }
                    Stop::Error => {
                        self.fired.error += 1;
                        Err(io::Error::new(io::ErrorKind::ConnectionReset, "sim: reset"))
                    }
                };
            }
            room = room.min(*at - self.pos);
        }
        if room == 0 {
            // natural end of data
            return Ok(0);
        }
        let st = self.plan.steps.get(self.step).cloned().unwrap_or(IoStep::Full);
        self.step += 1;
        let n = match st {
            IoStep::Intr => {
                self.fired.intr += 1;
                return Err(io::Error::new(io::ErrorKind::Interrupted, "sim: EINTR"));
            }
            IoStep::Short(k) => {
                let n = buf.len().min(k.max(1)).min(room);
                if n < buf.len() {
                    self.fired.short += 1;
                }
                n
            }
            IoStep::Full => buf.len().min(room),
        };
        buf[..n].copy_from_slice(&self.data[self.pos..self.pos + n]);
        self.pos += n;
        Ok(n)
    }
}
