//! Panic containment for calls into the code under test.

use std::cell::RefCell;
use std::panic::{catch_unwind, AssertUnwindSafe};

thread_local! {
    static LAST_PANIC: RefCell<Option<String>> = const { RefCell::new(None) };
}

pub enum Guarded<T> {
    Done(T),
    Panicked(String),
}

/// Install a hook that records the panic message and location instead of printing.
pub fn install_silent_hook() {
    std::panic::set_hook(Box::new(|info| {
        let msg = if let Some(s) = info.payload().downcast_ref::<&str>() {
            s.to_string()
        } else if let Some(s) = info.payload().downcast_ref::<String>() {
            s.clone()
        } else {
            "<non-string panic payload>".to_string()
        };
        let loc = info.location().map(|l| format!("{}:{}", l.file(), l.line())).unwrap_or_default();
        LAST_PANIC.with(|p| *p.borrow_mut() = Some(format!("{msg} @ {loc}")));
        if std::env::var_os("SIM_PANIC_VERBOSE").is_some() {
            eprintln!("panic: {msg} @ {loc}");
        }
    }));
}

pub fn guard<T>(f: impl FnOnce() -> T) -> Guarded<T> {
    match catch_unwind(AssertUnwindSafe(f)) {
        Ok(v) => Guarded::Done(v),
        Err(_) => {
            let m = LAST_PANIC.with(|p| p.borrow_mut().take()).unwrap_or_else(|| "<unknown panic>".into());
            Guarded::Panicked(m)
        }
    }
}

/// Shorten a panic message to a stable key: file:line of the panic site and the
/// first words of the message without payload-specific data.
pub fn panic_key(msg: &str) -> String {
    let loc = msg.rsplit(" @ ").next().unwrap_or("");
    // strip absolute prefixes so the key survives moving the checkout
    let loc = loc.rsplit("/rust/").next().unwrap_or(loc);
    let loc = loc.rsplit("/registry/src/").next().unwrap_or(loc);
    loc.to_string()
}

/// Run `f` on a fresh thread with the given stack size and wait for it.
/// A panic escaping `f` is returned as Err(message). A stack overflow kills the
/// process, which the supervisor observes.
pub fn on_thread<T: Send + 'static>(stack: usize, f: impl FnOnce() -> T + Send + 'static) -> Result<T, String> {
    let h = std::thread::Builder::new()
        .stack_size(stack)
        .spawn(move || guard(f))
        .map_err(|e| format!("spawn: {e}"))?;
    match h.join() {
        Ok(Guarded::Done(v)) => Ok(v),
        Ok(Guarded::Panicked(m)) => Err(m),
        Err(_) => Err("thread join failed".into()),
    }
}
