//! Supervisor / worker split, replay files, minimisation, known findings.
//!
//! `simcheck check <id> <tier>`        supervisor
//! `simcheck worker ...`               one slice of runs, journals BEGIN/END per run
//! `simcheck exec-one <id> <file>`     execute one scenario, print violations as JSON
//! `simcheck replay <file>`            re-execute a replay file in a fresh process
//! `simcheck selftest-determinism`     run samples twice, diff event-log hashes

use crate::engines;
use crate::kernel::report::*;
use std::collections::{BTreeMap, BTreeSet};
use std::io::Write as _;
use std::path::{Path, PathBuf};
use std::process::{Command, Stdio};
use std::time::{Duration, Instant};

/// Root of the verification tree (the directory holding `check`); the check script exports it.
pub fn verif_root() -> String {
    std::env::var("SIM_ROOT").unwrap_or_else(|_| "/verif".to_string())
}
const CHUNK: u64 = 64;

pub fn verif_seed() -> u64 {
    match std::env::var("VERIF_SEED") {
        Ok(s) => s.trim().parse::<u64>().unwrap_or_else(|_| {
            // accept negative / non-numeric seeds deterministically
            crate::kernel::rng::fnv1a(s.as_bytes())
        }),
        Err(_) => DEFAULT_SEED,
    }
}

/// glibc keeps the stacks of finished threads in a cache and hands a cached stack of up to four
/// times the requested size to the next thread: a world that asks for 64 KiB may then run on
/// 256 KiB, depending on which runs the process executed before. That breaks both the small-stack
/// experiments and replayability, so every process that executes runs is started with the cache
/// switched off.
pub fn no_stack_cache(cmd: &mut Command) -> &mut Command {
    let t = "glibc.pthread.stack_cache_size=0";
    match std::env::var("GLIBC_TUNABLES") {
        Ok(v) if v.contains("glibc.pthread.stack_cache_size") => cmd,
        Ok(v) if !v.is_empty() => cmd.env("GLIBC_TUNABLES", format!("{v}:{t}")),
        _ => cmd.env("GLIBC_TUNABLES", t),
    }
}

fn exe() -> PathBuf {
    std::env::current_exe().expect("current_exe")
}
/// The release-profile build of this binary, when the check script built one.
fn release_exe() -> Option<PathBuf> {
    let p = match std::env::var_os("SIM_RELEASE_BIN") {
        Some(p) => PathBuf::from(p),
        None => PathBuf::from(format!("{}/target/release/simcheck", verif_root())),
    };
    if p.exists() {
        Some(p)
    } else {
        None
    }
}
fn exe_for(release: bool) -> PathBuf {
    if release && !cfg!(not(debug_assertions)) {
        release_exe().unwrap_or_else(exe)
    } else {
        exe()
    }
}

fn work_dir(prop: &str, tier: Tier) -> PathBuf {
    PathBuf::from(format!("{}/work/{prop}-{}-{}", verif_root(), tier.name(), std::process::id()))
}

/// Execute one scenario in this process. Engines run the scenario on fresh
/// threads themselves. Returns the violations and the event log.
pub fn exec_here(
    prop: &str,
    sc: &serde_json::Value,
    stats: &mut Stats,
    keep_log: bool,
) -> Result<(Vec<Violation>, u64, Option<Vec<String>>), String> {
    let mut ctx = Ctx::new(stats, prop, keep_log);
    engines::execute(prop, sc, &mut ctx)?;
    ctx.stats.runs += 1;
    let h = ctx.log.hash;
    Ok((ctx.violations, h, ctx.log.lines))
}

// ---------------------------------------------------------------- worker

pub struct WorkerArgs {
    pub prop: String,
    pub tier: Tier,
    pub seed: u64,
    pub w: u64,
    pub nw: u64,
    pub total: u64,
    pub dir: PathBuf,
    pub skip: BTreeSet<u64>,
}

fn my_runs(a: &WorkerArgs) -> Vec<u64> {
    (0..a.total).filter(|r| (r / CHUNK) % a.nw == a.w).collect()
}

pub fn worker(a: WorkerArgs) -> i32 {
    let journal_path = a.dir.join(format!("journal-{}.log", a.w));
    let result_path = a.dir.join(format!("result-{}.json", a.w));
    // resume from checkpoint if there is one
    let mut res: WorkerResult = std::fs::read(&result_path)
        .ok()
        .and_then(|b| parse_json(&b).ok())
        .unwrap_or(WorkerResult { from: 0, to: 0, stats: Stats::default(), found: vec![], log_hashes: vec![] });
    let done_upto = res.to; // all of my runs < done_upto are done
    let mut journal = std::fs::OpenOptions::new().create(true).append(true).open(&journal_path).expect("journal");
    let runs = my_runs(&a);
    let mut pending_stats = Stats::default();
    let mut pending_found = Vec::new();
    let mut pending_hashes = Vec::new();
    let keep_hashes = std::env::var_os("SIM_KEEP_HASHES").is_some();
    for (i, r) in runs.iter().enumerate() {
        let r = *r;
        if r < done_upto {
            continue;
        }
        if !a.skip.contains(&r) {
            let sc = engines::generate(&a.prop, a.tier, a.seed, r);
            let _ = writeln!(journal, "BEGIN {r}");
            let _ = journal.flush();
            match exec_here(&a.prop, &sc, &mut pending_stats, false) {
                Ok((viol, h, _)) => {
                    let _ = writeln!(journal, "END {r} {h:016x}");
                    if keep_hashes {
                        pending_hashes.push((r, h));
                    }
                    for v in viol {
                        if pending_found.len() + res.found.len() < 200 {
                            pending_found.push(FoundViolation { run: r, violation: v, scenario: sc.clone(), release: !cfg!(debug_assertions) });
                        }
                    }
                }
                Err(e) => {
                    eprintln!("HARNESS-ERROR worker {} run {r}: {e}", a.w);
                    return 2;
                }
            }
        }
        let chunk_end = i + 1 == runs.len() || runs[i + 1] / CHUNK != r / CHUNK;
        if chunk_end {
            res.stats.merge(std::mem::take(&mut pending_stats));
            res.found.append(&mut pending_found);
            res.log_hashes.append(&mut pending_hashes);
            res.to = r + 1;
            let tmp = a.dir.join(format!("result-{}.tmp", a.w));
            std::fs::write(&tmp, serde_json::to_vec(&res).unwrap()).expect("write result");
            std::fs::rename(&tmp, &result_path).expect("rename result");
        }
    }
    if runs.is_empty() {
        std::fs::write(&result_path, serde_json::to_vec(&res).unwrap()).expect("write result");
    }
    0
}

// ---------------------------------------------------------------- child execution

/// Outcome of executing one scenario in a child process.
pub enum ChildOutcome {
    Violations(Vec<Violation>, u64),
    Died(String),
    HarnessError(String),
}

pub fn exec_child(prop: &str, sc: &serde_json::Value, scratch: &Path) -> ChildOutcome {
    exec_child_with(prop, sc, scratch, false)
}
pub fn exec_child_with(prop: &str, sc: &serde_json::Value, scratch: &Path, release: bool) -> ChildOutcome {
    let _ = std::fs::create_dir_all(scratch);
    let f = scratch.join(format!("one-{}-{:x}.json", std::process::id(), crate::kernel::rng::fnv1a(sc.to_string().as_bytes())));
    if let Err(e) = std::fs::write(&f, serde_json::to_vec(sc).unwrap()) {
        return ChildOutcome::HarnessError(format!("write {f:?}: {e}"));
    }
    let out = run_with_timeout(no_stack_cache(&mut Command::new(exe_for(release))).arg("exec-one").arg(prop).arg(&f).stdin(Stdio::null()).stderr(Stdio::null()).stdout(Stdio::piped()), Duration::from_secs(60));
    let _ = std::fs::remove_file(&f);
    match out {
        Err(e) if e == "timeout" => ChildOutcome::Died("no-progress(killed by watchdog)".into()),
        Err(e) => ChildOutcome::HarnessError(format!("spawn: {e}")),
        Ok(o) => {
            if o.status.success() {
                let s = String::from_utf8_lossy(&o.stdout);
                for line in s.lines() {
                    if let Some(j) = line.strip_prefix("RESULT ") {
                        if let Ok((v, h)) = parse_json::<(Vec<Violation>, u64)>(j.as_bytes()) {
                            return ChildOutcome::Violations(v, h);
                        }
                    }
                }
                ChildOutcome::HarnessError("child printed no RESULT".into())
            } else if o.status.code() == Some(2) {
                ChildOutcome::HarnessError(String::from_utf8_lossy(&o.stdout).to_string())
            } else {
                ChildOutcome::Died(describe_status(&o.status))
            }
        }
    }
}

/// CPU seconds (user + system) consumed so far by a process, from /proc/<pid>/stat.
/// The watchdogs count CPU time, not wall-clock time, so that a loaded machine cannot
/// make a healthy run look stuck.
fn cpu_seconds(pid: u32) -> Option<f64> {
    let s = std::fs::read_to_string(format!("/proc/{pid}/stat")).ok()?;
    // the command name may contain spaces: fields start after the closing parenthesis
    let rest = &s[s.rfind(')')? + 2..];
    let f: Vec<&str> = rest.split(' ').collect();
    let utime: f64 = f.get(11)?.parse().ok()?;
    let stime: f64 = f.get(12)?.parse().ok()?;
    Some((utime + stime) / 100.0)
}

/// Run a command, capture stdout, kill it after `limit` of CPU time (or 20x that of wall-clock time).
fn run_with_timeout(cmd: &mut Command, limit: Duration) -> Result<std::process::Output, String> {
    use std::io::Read;
    let mut ch = cmd.spawn().map_err(|e| e.to_string())?;
    let mut so = ch.stdout.take();
    let reader = std::thread::spawn(move || {
        let mut buf = Vec::new();
        if let Some(s) = so.as_mut() {
            let _ = s.read_to_end(&mut buf);
        }
        buf
    });
    let t0 = Instant::now();
    let pid = ch.id();
    loop {
        match ch.try_wait().map_err(|e| e.to_string())? {
            Some(status) => {
                let stdout = reader.join().unwrap_or_default();
                return Ok(std::process::Output { status, stdout, stderr: vec![] });
            }
            None => {
                let cpu = cpu_seconds(pid).unwrap_or(0.0);
                if cpu > limit.as_secs_f64() || t0.elapsed() > limit * 20 {
                    let _ = ch.kill();
                    let _ = ch.wait();
                    let _ = reader.join();
                    return Err("timeout".into());
                }
                std::thread::sleep(Duration::from_millis(5));
            }
        }
    }
}

pub fn describe_status(st: &std::process::ExitStatus) -> String {
    use std::os::unix::process::ExitStatusExt;
    if let Some(sig) = st.signal() {
        let name = match sig {
            6 => "SIGABRT",
            11 => "SIGSEGV",
            7 => "SIGBUS",
            9 => "SIGKILL",
            4 => "SIGILL",
            _ => "signal",
        };
        format!("{name}({sig})")
    } else {
        format!("exit({})", st.code().unwrap_or(-1))
    }
}

pub fn exec_one_cmd(prop: &str, file: &str) -> i32 {
    let sc: serde_json::Value = match std::fs::read(file).ok().and_then(|b| parse_json(&b).ok()) {
        Some(v) => v,
        None => {
            println!("cannot read scenario {file}");
            return 2;
        }
    };
    let mut stats = Stats::default();
    match exec_here(prop, &sc, &mut stats, false) {
        Ok((v, h, _)) => {
            println!("RESULT {}", serde_json::to_string(&(v, h)).unwrap());
            0
        }
        Err(e) => {
            println!("HARNESS-ERROR {e}");
            2
        }
    }
}

/// Does the scenario still violate (property, invariant)? Always evaluated in a
/// child process under a watchdog, so that a candidate that crashes or does not
/// terminate cannot take the supervisor with it.
fn still_fails(prop: &str, invariant: &str, sc: &serde_json::Value, scratch: &Path, release: bool) -> bool {
    match exec_child_with(prop, sc, scratch, release) {
        ChildOutcome::Violations(v, _) => v.iter().any(|x| x.invariant == invariant),
        ChildOutcome::Died(how) => (invariant == "process-death" && !how.contains("watchdog")) || (invariant == "run-terminates" && how.contains("watchdog")),
        ChildOutcome::HarnessError(_) => false,
    }
}

pub fn minimise(
    prop: &str,
    invariant: &str,
    sc: serde_json::Value,
    budget: Duration,
    scratch: &Path,
    release: bool,
) -> (serde_json::Value, bool) {
    let t0 = Instant::now();
    let mut cur = sc;
    let mut complete = true;
    'outer: loop {
        let cands = engines::shrink(prop, &cur);
        for c in cands {
            if t0.elapsed() > budget {
                complete = false;
                break 'outer;
            }
            if engines::size(prop, &c) > engines::size(prop, &cur) {
                continue;
            }
            if c == cur {
                continue;
            }
            if still_fails(prop, invariant, &c, scratch, release) {
                cur = c;
                continue 'outer;
            }
        }
        break;
    }
    (cur, complete)
}

// ---------------------------------------------------------------- known findings

pub struct Known {
    pub entries: Vec<(String, String, String, String)>, // property, invariant, key, text
}
pub fn load_known() -> Known {
    let mut entries = Vec::new();
    if let Ok(s) = std::fs::read_to_string(format!("{}/known-findings.txt", verif_root())) {
        for line in s.lines() {
            let line = line.trim();
            if let Some(rest) = line.strip_prefix("known:") {
                let mut p = String::new();
                let mut i = String::new();
                let mut k = String::new();
                let mut text = String::new();
                for (n, tok) in rest.trim().splitn(4, ' ').enumerate() {
                    match n {
                        0 => p = tok.strip_prefix("property=").unwrap_or("").to_string(),
                        1 => i = tok.strip_prefix("invariant=").unwrap_or("").to_string(),
                        2 => k = tok.strip_prefix("key=").unwrap_or("").to_string(),
                        _ => text = tok.to_string(),
                    }
                }
                entries.push((p, i, k, text));
            }
        }
    }
    Known { entries }
}
impl Known {
    pub fn matches(&self, v: &Violation) -> Option<&str> {
        self.entries
            .iter()
            .find(|(p, i, k, _)| *p == v.property && *i == v.invariant && *k == v.key)
            .map(|e| e.3.as_str())
    }
}

// ---------------------------------------------------------------- supervisor

fn spawn_worker(prop: &str, tier: Tier, seed: u64, w: u64, nw: u64, total: u64, dir: &Path, skip: &BTreeSet<u64>) -> std::process::Child {
    let skip_s = skip.iter().map(|x| x.to_string()).collect::<Vec<_>>().join(",");
    let errf = std::fs::OpenOptions::new().create(true).append(true).open(dir.join(format!("stderr-{w}.log"))).expect("stderr file");
    let use_release = std::env::var_os("SIM_MIX_RELEASE").is_some() && w % 2 == 1 && release_exe().is_some();
    no_stack_cache(&mut Command::new(if use_release { release_exe().unwrap() } else { exe() }))
        .arg("worker")
        .arg(prop)
        .arg(tier.name())
        .arg(seed.to_string())
        .arg(w.to_string())
        .arg(nw.to_string())
        .arg(total.to_string())
        .arg(dir)
        .arg(skip_s)
        .stdin(Stdio::null())
        .stdout(Stdio::null())
        .stderr(Stdio::from(errf))
        .spawn()
        .expect("spawn worker")
}

fn last_begin_without_end(journal: &Path) -> Option<u64> {
    let s = std::fs::read_to_string(journal).ok()?;
    let mut open: Option<u64> = None;
    for l in s.lines() {
        let mut it = l.split(' ');
        match (it.next(), it.next().and_then(|x| x.parse::<u64>().ok())) {
            (Some("BEGIN"), Some(r)) => open = Some(r),
            (Some("END"), Some(r)) => {
                if open == Some(r) {
                    open = None
                }
            }
            _ => {}
        }
    }
    open
}

pub fn n_workers(total: u64) -> u64 {
    let cores = std::thread::available_parallelism().map(|n| n.get() as u64).unwrap_or(4);
    let want = std::env::var("SIM_WORKERS").ok().and_then(|s| s.parse::<u64>().ok()).unwrap_or(cores.min(16));
    want.max(1).min((total / CHUNK).max(1))
}

pub struct CheckOutcome {
    pub stats: Stats,
    pub found: Vec<FoundViolation>,
    pub hashes: BTreeMap<u64, u64>,
}

/// Run all slices; returns Err for harness errors.
pub fn run_slices(prop: &str, tier: Tier, seed: u64, total: u64, nw: u64, dir: &Path) -> Result<CheckOutcome, String> {
    let _ = std::fs::remove_dir_all(dir);
    std::fs::create_dir_all(dir).map_err(|e| format!("mkdir {dir:?}: {e}"))?;
    let mut skips: Vec<BTreeSet<u64>> = vec![BTreeSet::new(); nw as usize];
    let mut children: Vec<Option<std::process::Child>> = (0..nw)
        .map(|w| Some(spawn_worker(prop, tier, seed, w, nw, total, dir, &skips[w as usize])))
        .collect();
    let mut found = Vec::new();
    let mut deaths = 0;
    let mut too_many_deaths = false;
    // Backstop against runs that do not terminate: a run normally takes milliseconds;
    // if a worker's journal shows an open BEGIN and has not moved for this long the
    // worker is killed and the open run is reported like a process death.
    let stall = Duration::from_secs(std::env::var("SIM_RUN_TIMEOUT_S").ok().and_then(|s| s.parse().ok()).unwrap_or(if tier == Tier::Quick { 90 } else { 300 }));
    let mut last_size: Vec<u64> = vec![0; nw as usize];
    let mut last_move: Vec<Instant> = vec![Instant::now(); nw as usize];
    // CPU seconds of the worker when its journal last moved
    let mut cpu_at_move: Vec<f64> = vec![0.0; nw as usize];
    loop {
        let mut any = false;
        for w in 0..nw as usize {
            let Some(ch) = children[w].as_mut() else { continue };
            any = true;
            let mut timed_out = false;
            let st = match ch.try_wait().map_err(|e| format!("wait: {e}"))? {
                Some(st) => st,
                None => {
                    let jp = dir.join(format!("journal-{w}.log"));
                    let sz = std::fs::metadata(&jp).map(|m| m.len()).unwrap_or(0);
                    let cpu = cpu_seconds(ch.id()).unwrap_or(0.0);
                    if sz != last_size[w] {
                        last_size[w] = sz;
                        last_move[w] = Instant::now();
                        cpu_at_move[w] = cpu;
                        continue;
                    }
                    // stuck = the open run has burnt `stall` seconds of CPU (or 20x that of wall-clock time)
                    let burnt = cpu - cpu_at_move[w];
                    if (burnt < stall.as_secs_f64() && last_move[w].elapsed() < stall * 20) || last_begin_without_end(&jp).is_none() {
                        continue;
                    }
                    let _ = ch.kill();
                    timed_out = true;
                    ch.wait().map_err(|e| format!("wait: {e}"))?
                }
            };
            children[w] = None;
            last_move[w] = Instant::now();
            cpu_at_move[w] = 0.0;
            if st.success() {
                continue;
            }
            if st.code() == Some(2) {
                let err = std::fs::read_to_string(dir.join(format!("stderr-{w}.log"))).unwrap_or_default();
                return Err(format!("worker {w} reported a harness error: {}", err.lines().last().unwrap_or("")));
            }
            // the worker died: identify the run from its journal
            let how = if timed_out { format!("no-progress-for-{}s(killed by watchdog)", stall.as_secs()) } else { describe_status(&st) };
            let r = last_begin_without_end(&dir.join(format!("journal-{w}.log")));
            match r {
                Some(r) => {
                    deaths += 1;
                    if deaths > 40 {
                        // stop exploring, but report what was found: the deaths ARE the finding
                        too_many_deaths = true;
                    }
                    let sc = engines::generate(prop, tier, seed, r);
                    found.push(FoundViolation {
                        run: r,
                        violation: Violation {
                            property: prop.to_string(),
                            invariant: if timed_out { "run-terminates".into() } else { "process-death".into() },
                            key: how.clone(),
                            detail: format!("worker process ended with {how} while executing run {r}"),
                        },
                        scenario: sc,
                        release: std::env::var_os("SIM_MIX_RELEASE").is_some() && w % 2 == 1 && release_exe().is_some(),
                    });
                    skips[w].insert(r);
                    if !too_many_deaths {
                        children[w] = Some(spawn_worker(prop, tier, seed, w as u64, nw, total, dir, &skips[w]));
                    }
                }
                None => {
                    let err = std::fs::read_to_string(dir.join(format!("stderr-{w}.log"))).unwrap_or_default();
                    return Err(format!("worker {w} died ({how}) outside any run: {}", err.lines().last().unwrap_or("")));
                }
            }
        }
        if !any {
            break;
        }
        std::thread::sleep(Duration::from_millis(20));
    }
    let mut stats = Stats::default();
    let mut hashes = BTreeMap::new();
    for w in 0..nw {
        let p = dir.join(format!("result-{w}.json"));
        let b = match std::fs::read(&p) {
            Ok(b) => b,
            Err(_) if too_many_deaths => continue, // abandoned slice
            Err(e) => return Err(format!("read {p:?}: {e}")),
        };
        let r: WorkerResult = parse_json(&b).map_err(|e| format!("parse {p:?}: {e}"))?;
        stats.merge(r.stats);
        found.extend(r.found);
        for (k, v) in r.log_hashes {
            hashes.insert(k, v);
        }
    }
    found.sort_by_key(|f| f.run);
    Ok(CheckOutcome { stats, found, hashes })
}

pub fn check(prop: &str, tier: Tier) -> i32 {
    let meta = match engines::meta(prop) {
        Some(m) => m,
        None => {
            eprintln!("unknown or unclaimed property {prop}");
            return 2;
        }
    };
    let seed = verif_seed();
    println!("VERIF_SEED={seed} property={prop} tier={} engine={}", tier.name(), meta.engine);
    let t0 = Instant::now();
    let total = engines::runs_for(prop, tier);
    let nw = n_workers(total);
    let dir = work_dir(prop, tier);
    let out = match run_slices(prop, tier, seed, total, nw, &dir) {
        Ok(o) => o,
        Err(e) => {
            println!("HARNESS-ERROR {e}");
            return 2;
        }
    };
    let stats = out.stats;
    // group by invariant, keep the smallest scenario of each group
    let mut groups: BTreeMap<(String, String), FoundViolation> = BTreeMap::new();
    let mut per_invariant_count: BTreeMap<String, u64> = BTreeMap::new();
    for f in out.found {
        *per_invariant_count.entry(f.violation.invariant.clone()).or_insert(0) += 1;
        let k = (f.violation.invariant.clone(), f.violation.key.clone());
        match groups.get(&k) {
            Some(g) if engines::size(prop, &g.scenario) <= engines::size(prop, &f.scenario) => {}
            _ => {
                groups.insert(k, f);
            }
        }
    }
    let known = load_known();
    let mut n_viol = 0usize;
    let mut n_known = 0usize;
    let budget_total = if tier == Tier::Quick { 30 } else { 300 };
    let mut reported_invariants: BTreeMap<String, usize> = BTreeMap::new();
    let mut nonrepro = 0usize;
    let replay_dir = PathBuf::from(format!("{}/replays", verif_root()));
    let ngroups = groups.len().max(1) as u64;
    let t_min = Instant::now();
    for ((inv, _key), f) in groups {
        // known finding?
        if let Some(text) = known.matches(&f.violation) {
            println!("KNOWN-FINDING: property={prop} invariant={inv} key={} {text}", f.violation.key);
            n_known += 1;
            continue;
        }
        let c = reported_invariants.entry(inv.clone()).or_insert(0);
        *c += 1;
        if *c > 3 {
            // more keys of the same invariant: count, do not minimise again
            n_viol += 1;
            continue;
        }
        let orig_ops = engines::size(prop, &f.scenario);
        // confirm first, in a fresh process
        let confirmed = still_fails(prop, &inv, &f.scenario, &dir, f.release);
        if !confirmed {
            // never reported as a violation; if nothing reproducible is found either, the run is a harness error
            println!("note: a violation of {prop}/{inv} seen in run {} does not reproduce in a fresh process (not reported)", f.run);
            nonrepro += 1;
            *reported_invariants.entry(inv.clone()).or_insert(1) -= 1;
            continue;
        }
        let spent = t_min.elapsed().as_secs();
        let (min_sc, complete) = if spent >= budget_total {
            (f.scenario.clone(), false)
        } else {
            minimise(prop, &inv, f.scenario.clone(), Duration::from_secs(((budget_total - spent) / 2).clamp(3, (budget_total / ngroups.min(4)).max(5))), &dir, f.release)
        };
        // determine the violation text of the minimised scenario
        let mut v = f.violation.clone();
        if let ChildOutcome::Violations(vs, _) = exec_child_with(prop, &min_sc, &dir, f.release) {
            if let Some(x) = vs.into_iter().find(|x| x.invariant == inv) {
                v = x;
            }
        }
        if let Some(text) = known.matches(&v) {
            println!("KNOWN-FINDING: property={prop} invariant={inv} key={} {text}", v.key);
            n_known += 1;
            continue;
        }
        let rf = ReplayFile {
            property: prop.to_string(),
            invariant: inv.clone(),
            key: v.key.clone(),
            detail: v.detail.clone(),
            verif_seed: seed,
            run: f.run,
            minimised: complete,
            original_ops: orig_ops,
            ops: engines::size(prop, &min_sc),
            profile: if f.release { "release".into() } else { "debug".into() },
            scenario: min_sc,
        };
        let _ = std::fs::create_dir_all(&replay_dir);
        let body = serde_json::to_string_pretty(&rf).unwrap();
        let h = crate::kernel::rng::fnv1a(body.as_bytes());
        let path = replay_dir.join(format!("{prop}-{}-{:08x}.json", sanitize(&inv), h as u32));
        let _ = std::fs::write(&path, body);
        n_viol += 1;
        println!("violation: property={prop} invariant={inv} run={} ops={}->{} detail={}", f.run, orig_ops, rf.ops, truncate(&v.detail, 600));
        println!("VIOLATION property={prop} replay={}", path.display());
    }
    let wall = t0.elapsed().as_secs_f64();
    let mut extra = engines::extra_evidence(prop, tier, &stats);
    if let Some(o) = extra.as_object_mut() {
        o.insert("violations_by_invariant".into(), serde_json::to_value(&per_invariant_count).unwrap());
        o.insert("workers".into(), serde_json::json!(nw));
        let mixed = std::env::var_os("SIM_MIX_RELEASE").is_some() && release_exe().is_some();
        o.insert(
            "build_profiles".into(),
            if mixed { serde_json::json!(["debug (even workers)", "release (odd workers)"]) } else if cfg!(debug_assertions) { serde_json::json!(["debug"]) } else { serde_json::json!(["release"]) },
        );
    }
    let evp = format!("{}/evidence/{prop}.json", verif_root());
    if let Err(e) = write_evidence(&evp, meta, tier, seed, &stats, wall, n_viol, n_known, extra) {
        println!("HARNESS-ERROR cannot write evidence: {e}");
        return 2;
    }
    let _ = std::fs::remove_dir_all(&dir);
    println!(
        "done: property={prop} runs={} steps={} distinct={} faults_fired={} violations={} known={} wall={:.1}s",
        stats.runs,
        stats.steps,
        stats.distinct.len(),
        stats.faults.values().sum::<u64>(),
        n_viol,
        n_known,
        wall
    );
    if n_viol > 0 {
        1
    } else if nonrepro > 0 {
        println!("HARNESS-ERROR {nonrepro} violation(s) were seen that do not reproduce in a fresh process and nothing reproducible was found; treating as harness nondeterminism");
        2
    } else {
        0
    }
}

fn sanitize(s: &str) -> String {
    s.chars().map(|c| if c.is_ascii_alphanumeric() || c == '-' { c } else { '_' }).collect()
}
fn truncate(s: &str, n: usize) -> String {
    if s.len() <= n {
        s.to_string()
    } else {
        let mut e = n;
        while !s.is_char_boundary(e) {
            e -= 1;
        }
        format!("{}…", &s[..e])
    }
}

// ---------------------------------------------------------------- replay

pub fn replay(file: &str, verbose: bool) -> i32 {
    let rf: ReplayFile = match std::fs::read(file).ok().and_then(|b| parse_json(&b).ok()) {
        Some(v) => v,
        None => {
            println!("HARNESS-ERROR cannot read replay file {file}");
            return 2;
        }
    };
    let scratch = PathBuf::from(format!("{}/work/replay-{}", verif_root(), std::process::id()));
    let out = exec_child_with(&rf.property, &rf.scenario, &scratch, rf.profile == "release");
    let _ = std::fs::remove_dir_all(&scratch);
    if verbose && !engines::crash_class(&rf.invariant) {
        let mut st = Stats::default();
        if let Ok((_, _, Some(lines))) = exec_here(&rf.property, &rf.scenario, &mut st, true) {
            for l in lines {
                println!("  | {l}");
            }
        }
    }
    match out {
        ChildOutcome::Violations(v, h) => {
            if let Some(x) = v.iter().find(|x| x.invariant == rf.invariant) {
                println!("replayed: invariant={} key={} log_hash={h:016x} detail={}", x.invariant, x.key, truncate(&x.detail, 600));
                println!("VIOLATION property={} replay={file}", rf.property);
                1
            } else {
                println!("replay of {file}: invariant {} holds now (log_hash={h:016x})", rf.invariant);
                0
            }
        }
        ChildOutcome::Died(how) => {
            println!("replayed: process died with {how}");
            println!("VIOLATION property={} replay={file}", rf.property);
            1
        }
        ChildOutcome::HarnessError(e) => {
            println!("HARNESS-ERROR {e}");
            2
        }
    }
}

// ---------------------------------------------------------------- determinism self-test

/// For each claimed property: execute a sample of runs in two separate sets of
/// worker processes (1 worker, then many) and compare per-run event-log hashes.
pub fn selftest_determinism(props: &[String], seeds: u64, runs_per_seed: u64) -> i32 {
    std::env::set_var("SIM_KEEP_HASHES", "1");
    let base = verif_seed();
    let mut bad = 0;
    let mut compared = 0u64;
    for prop in props {
        if engines::meta(prop).is_none() {
            println!("HARNESS-ERROR unknown property {prop}");
            return 2;
        }
        let total = runs_per_seed.min(engines::runs_for(prop, Tier::Quick));
        for s in 0..seeds {
            let seed = base.wrapping_add(s.wrapping_mul(7919));
            let d1 = PathBuf::from(format!("{}/work/det-{prop}-{}-a", verif_root(), std::process::id()));
            let d2 = PathBuf::from(format!("{}/work/det-{prop}-{}-b", verif_root(), std::process::id()));
            let a = run_slices(prop, Tier::Quick, seed, total, 1, &d1);
            let b = run_slices(prop, Tier::Quick, seed, total, n_workers(total).max(2).min((total / CHUNK).max(1)), &d2);
            let _ = std::fs::remove_dir_all(&d1);
            let _ = std::fs::remove_dir_all(&d2);
            match (a, b) {
                (Ok(a), Ok(b)) => {
                    for (r, h) in &a.hashes {
                        compared += 1;
                        if b.hashes.get(r) != Some(h) {
                            bad += 1;
                            if bad <= 10 {
                                println!("NONDETERMINISM property={prop} seed={seed} run={r} {h:016x} vs {:?}", b.hashes.get(r));
                            }
                        }
                    }
                    let fa: Vec<_> = a.found.iter().map(|f| (f.run, f.violation.invariant.clone())).collect();
                    let fb: Vec<_> = b.found.iter().map(|f| (f.run, f.violation.invariant.clone())).collect();
                    if fa != fb {
                        bad += 1;
                        println!("NONDETERMINISM property={prop} seed={seed}: violation sets differ");
                    }
                }
                (Err(e), _) | (_, Err(e)) => {
                    println!("HARNESS-ERROR {e}");
                    return 2;
                }
            }
        }
        println!("determinism: property={prop} seeds={seeds} runs/seed={total} ok so far (compared {compared} run hashes, {bad} differ)");
    }
    if bad > 0 {
        println!("HARNESS-ERROR determinism self-test failed: {bad} differences");
        2
    } else {
        println!("determinism self-test passed: {compared} run hashes compared twice (1 worker vs many), 0 differ");
        0
    }
}
