//! Engine D `stream-sim` (C09): the integer codecs behind their `io::Read` /
//! `io::Write` seams, driven by `SimReader` / `SimWriter` fault plans, judged by
//! the harness's own (S)LEB128 arithmetic.

use crate::kernel::guard::{guard, on_thread, panic_key, Guarded};
use crate::kernel::io::{IoPlan, IoStep, SimReader, SimWriter, Stop};
use crate::kernel::report::{Ctx, Tier};
use crate::kernel::rng::{fnv1a, mix, Rng};
use crate::models::bigint::*;
use candid::{Decode, Int, Nat};
use serde::{Deserialize, Serialize};
use std::collections::BTreeMap;

pub fn hex(b: &[u8]) -> String {
    let mut s = String::with_capacity(b.len() * 2);
    for x in b {
        s.push_str(&format!("{x:02x}"));
    }
    s
}
pub fn unhex(s: &str) -> Vec<u8> {
    (0..s.len() / 2).map(|i| u8::from_str_radix(&s[2 * i..2 * i + 2], 16).unwrap_or(0)).collect()
}

#[derive(Serialize, Deserialize, Clone, Debug, PartialEq, Eq, Copy)]
pub enum Codec {
    /// candid::Nat::decode / encode
    Nat,
    /// candid::Int::decode / encode
    Int,
    /// types::leb128::decode_nat / encode_nat (u128)
    U128,
    /// types::leb128::decode_int / encode_int (i128)
    I128,
}
impl Codec {
    pub const ALL: [Codec; 4] = [Codec::Nat, Codec::Int, Codec::U128, Codec::I128];
    fn signed(&self) -> bool {
        matches!(self, Codec::Int | Codec::I128)
    }
}

/// How a string is embedded into a message for the in-message decoders.
#[derive(Serialize, Deserialize, Clone, Debug, PartialEq, Eq, Copy)]
pub enum Shape {
    /// (nat, nat8) decoded as (Nat, u8): the sentinel proves the position
    NatThen8,
    IntThen8,
    /// wire nat decoded as Int
    IntFromNatThen8,
    U128Then8,
    I128Then8,
    I128FromNatThen8,
    /// vec nat with the string repeated 3 times, decoded as Vec<Nat>
    VecNat,
    VecInt,
    VecIntFromNat,
    /// vec record {text; int} decoded as BTreeMap<String, Int>
    MapTextInt,
    /// vec record {nat; nat} decoded as BTreeMap<Nat, Nat> (string is key and value)
    MapNatNat,
    /// vec record {int; nat}: key is the string read as int, value is nat 7
    MapIntKeyNat,
    /// vec record {nat8; int} decoded as BTreeMap<u8, Int>
    MapU8Int,
    /// opt nat / opt int
    OptNat,
    OptInt,
    /// untyped: IDLArgs::from_bytes on (nat) / (int)
    UntypedNat,
    UntypedInt,
    /// untyped with expected type int on wire nat
    UntypedIntFromNat,
}
impl Shape {
    pub const ALL: [Shape; 18] = [
        Shape::NatThen8,
        Shape::IntThen8,
        Shape::IntFromNatThen8,
        Shape::U128Then8,
        Shape::I128Then8,
        Shape::I128FromNatThen8,
        Shape::VecNat,
        Shape::VecInt,
        Shape::VecIntFromNat,
        Shape::MapTextInt,
        Shape::MapNatNat,
        Shape::MapIntKeyNat,
        Shape::MapU8Int,
        Shape::OptNat,
        Shape::OptInt,
        Shape::UntypedNat,
        Shape::UntypedInt,
        Shape::UntypedIntFromNat,
    ];
    /// is the embedded string read as signed LEB128?
    fn wire_signed(&self) -> bool {
        matches!(
            self,
            Shape::IntThen8 | Shape::I128Then8 | Shape::VecInt | Shape::MapTextInt | Shape::MapIntKeyNat | Shape::MapU8Int | Shape::OptInt | Shape::UntypedInt
        )
    }
}

#[derive(Serialize, Deserialize, Clone, Debug, PartialEq)]
pub enum Case {
    Decode { codec: Codec, bytes: String, plan: IoPlan },
    Encode { codec: Codec, value: String, plan: IoPlan },
    InMessage { shape: Shape, bytes: String },
    /// all strings of length `len` with the given leading bytes (hex); expanded at run time
    Exhaust { len: u8, lead: String },
}

#[derive(Serialize, Deserialize, Clone, Debug, PartialEq)]
pub struct Sc {
    pub stack_kib: usize,
    pub cases: Vec<Case>,
}

// ---------------------------------------------------------------- generation

const QUICK_RUNS: u64 = 8192;
const THOROUGH_RUNS: u64 = 24576;

pub fn runs_for(_prop: &str, tier: Tier) -> u64 {
    match tier {
        Tier::Quick => QUICK_RUNS,
        Tier::Thorough => THOROUGH_RUNS,
    }
}

/// boundary family: all sign/padding patterns around 64-bit and 128-bit borders
fn boundary_string(idx: u64) -> Option<Vec<u8>> {
    const LENS: [usize; 11] = [7, 8, 9, 10, 11, 17, 18, 19, 20, 21, 22];
    const FILL: [u8; 5] = [0x80, 0xff, 0x81, 0xc0, 0xbf];
    const PEN: [u8; 8] = [0x80, 0xff, 0x81, 0xc0, 0xbf, 0xfe, 0x82, 0xfd];
    const LAST: [u8; 14] = [0x00, 0x01, 0x02, 0x03, 0x04, 0x3f, 0x40, 0x41, 0x7c, 0x7d, 0x7e, 0x7f, 0x20, 0x5f];
    let total = (LENS.len() * FILL.len() * PEN.len() * LAST.len()) as u64;
    if idx >= total {
        return None;
    }
    let mut i = idx as usize;
    let last = LAST[i % LAST.len()];
    i /= LAST.len();
    let pen = PEN[i % PEN.len()];
    i /= PEN.len();
    let fill = FILL[i % FILL.len()];
    i /= FILL.len();
    let len = LENS[i];
    let mut v = vec![fill; len];
    v[len - 2] = pen;
    v[len - 1] = last;
    Some(v)
}
pub fn boundary_total() -> u64 {
    11 * 5 * 8 * 14
}

/// numbers near powers of two: ±2^k, ±2^k±1 for k <= 200
fn pow2_number(idx: u64) -> Option<BigI> {
    let k = (idx / 6) as usize;
    if k > 200 {
        return None;
    }
    let p = BigU::pow2(k);
    let one = BigU::from_u64(1);
    Some(match idx % 6 {
        0 => BigI::new(false, p),
        1 => BigI::new(false, p.add(&one)),
        2 => BigI::new(false, p.sub(&one)),
        3 => BigI::new(true, p),
        4 => BigI::new(true, p.add(&one)),
        _ => BigI::new(true, p.sub(&one)),
    })
}
pub fn pow2_total() -> u64 {
    201 * 6
}

fn random_string(rng: &mut Rng) -> Vec<u8> {
    let len = rng.range(1, 40) as usize;
    let mut v = Vec::with_capacity(len);
    let style = rng.below(4);
    for i in 0..len {
        let payload = match style {
            0 => rng.below(128) as u8,
            1 => *rng.pick(&[0x00u8, 0x7f, 0x01, 0x40, 0x3f]),
            2 => {
                if rng.chance(1, 4) {
                    rng.below(128) as u8
                } else {
                    0
                }
            }
            _ => {
                if rng.chance(1, 4) {
                    rng.below(128) as u8
                } else {
                    0x7f
                }
            }
        };
        let last = i + 1 == len;
        v.push(if last { payload } else { payload | 0x80 });
    }
    // a share of unterminated / early-terminated strings
    match rng.below(10) {
        0 => {
            let l = v.len() - 1;
            v[l] |= 0x80; // unterminated
        }
        1 if v.len() > 2 => {
            let j = rng.usize(v.len() - 1);
            v[j] &= 0x7f; // terminator in the middle: trailing bytes follow
        }
        _ => {}
    }
    v
}

/// padded form: minimal encoding of a value extended by sign-preserving padding groups
fn padded(min: &[u8], signed_negative: bool, pad: usize) -> Vec<u8> {
    let mut v = min.to_vec();
    if pad == 0 {
        return v;
    }
    let l = v.len() - 1;
    v[l] |= 0x80;
    for i in 0..pad {
        let g = if signed_negative { 0x7f } else { 0x00 };
        v.push(if i + 1 == pad { g } else { g | 0x80 });
    }
    v
}

fn plan_enumerated(bytes_len: usize, k: u64) -> IoPlan {
    // k-th member of the enumerated fault family for a string of this length:
    // EOF at every offset, then hard error at every offset, then 1-byte chunks,
    // then EINTR before every read
    let n = bytes_len as u64 + 1;
    if k < n {
        IoPlan { steps: vec![], stop: Some((k as usize, Stop::Eof)) }
    } else if k < 2 * n {
        IoPlan { steps: vec![], stop: Some(((k - n) as usize, Stop::Error)) }
    } else if k == 2 * n {
        IoPlan { steps: vec![IoStep::Short(1); bytes_len + 2], stop: None }
    } else {
        let mut steps = Vec::new();
        for _ in 0..bytes_len + 2 {
            steps.push(IoStep::Intr);
            steps.push(IoStep::Full);
        }
        IoPlan { steps, stop: None }
    }
}

pub fn generate(_prop: &str, tier: Tier, seed: u64, run: u64) -> Sc {
    let mut rng = Rng::new(mix(seed, &["C09", "stream"], run));
    let mut knobs = rng.split("knobs");
    let mut wl = rng.split("workload");
    let mut fl = rng.split("faults");
    let stack_kib = *knobs.pick(&[256usize, 1024, 8192]);
    let mut cases = Vec::new();
    // --- enumerated segments, by run index
    let exhaust3_runs: u64 = if tier == Tier::Thorough { 1024 } else { 64 }; // 64 lead-pairs per run (thorough: all 65536)
    if run == 0 {
        cases.push(Case::Exhaust { len: 1, lead: String::new() });
        for b in 0..=255u8 {
            cases.push(Case::Exhaust { len: 2, lead: hex(&[b]) });
        }
        return Sc { stack_kib, cases };
    }
    if run <= exhaust3_runs {
        let per = 64u64;
        let base = (run - 1) * per;
        for j in 0..per {
            let lead = if tier == Tier::Thorough {
                base + j
            } else {
                // quick: a seeded sample of the 65536 lead pairs, always including the sign/continuation corners
                match j {
                    0 => 0x8080,
                    1 => 0xffff,
                    2 => 0xff80,
                    3 => 0x80ff,
                    _ => wl.below(65536),
                }
            };
            cases.push(Case::Exhaust { len: 3, lead: hex(&[(lead >> 8) as u8, lead as u8]) });
        }
        return Sc { stack_kib, cases };
    }
    let r2 = run - exhaust3_runs - 1;
    let bt = boundary_total();
    let boundary_runs = bt.div_ceil(8);
    if r2 < boundary_runs {
        // 8 boundary strings per run; each: all codecs clean, enumerated faults on one codec, all shapes
        for j in 0..8 {
            if let Some(s) = boundary_string(r2 * 8 + j) {
                for c in Codec::ALL {
                    cases.push(Case::Decode { codec: c, bytes: hex(&s), plan: IoPlan::clean() });
                }
                let c = *fl.pick(&Codec::ALL);
                let nplans = 2 * (s.len() as u64 + 1) + 2;
                for k in 0..nplans {
                    cases.push(Case::Decode { codec: c, bytes: hex(&s), plan: plan_enumerated(s.len(), k) });
                }
                for sh in Shape::ALL {
                    cases.push(Case::InMessage { shape: sh, bytes: hex(&s) });
                }
            }
        }
        return Sc { stack_kib, cases };
    }
    let r3 = r2 - boundary_runs;
    let pt = pow2_total();
    let pow_runs = pt.div_ceil(6);
    if r3 < pow_runs {
        for j in 0..6 {
            if let Some(v) = pow2_number(r3 * 6 + j) {
                let dec = v.to_decimal();
                // encode with every codec that can represent it, clean and faulty
                for c in Codec::ALL {
                    cases.push(Case::Encode { codec: c, value: dec.clone(), plan: IoPlan::clean() });
                    let l = sleb_min(&v).len();
                    cases.push(Case::Encode { codec: c, value: dec.clone(), plan: IoPlan::random(&mut fl, l, true) });
                }
                // decode minimal and padded encodings
                let smin = sleb_min(&v);
                for pad in [0usize, 1, 2, 9, 25] {
                    let s = padded(&smin, v.neg, pad);
                    for c in [Codec::Int, Codec::I128] {
                        cases.push(Case::Decode { codec: c, bytes: hex(&s), plan: IoPlan::clean() });
                    }
                    for sh in Shape::ALL.iter().filter(|s| s.wire_signed()) {
                        cases.push(Case::InMessage { shape: *sh, bytes: hex(&s) });
                    }
                }
                if !v.neg {
                    let umin = leb_min(&v.mag);
                    for pad in [0usize, 1, 2, 9, 25] {
                        let s = padded(&umin, false, pad);
                        for c in [Codec::Nat, Codec::U128] {
                            cases.push(Case::Decode { codec: c, bytes: hex(&s), plan: IoPlan::clean() });
                        }
                        for sh in Shape::ALL.iter().filter(|s| !s.wire_signed()) {
                            cases.push(Case::InMessage { shape: *sh, bytes: hex(&s) });
                        }
                    }
                }
            }
        }
        return Sc { stack_kib, cases };
    }
    // --- seeded segment: random strings and numbers under random fault plans
    let n = 24;
    for _ in 0..n {
        match wl.below(10) {
            0..=5 => {
                let s = random_string(&mut wl);
                let c = *wl.pick(&Codec::ALL);
                let plan = if fl.chance(2, 3) { IoPlan::random(&mut fl, s.len(), true) } else { IoPlan::clean() };
                cases.push(Case::Decode { codec: c, bytes: hex(&s), plan });
                if wl.chance(1, 2) {
                    let sh = *wl.pick(&Shape::ALL);
                    cases.push(Case::InMessage { shape: sh, bytes: hex(&s) });
                }
            }
            6..=8 => {
                // random number of random size
                let bits = wl.range(0, 260) as usize;
                let mut mag = BigU::zero();
                for i in 0..bits {
                    if wl.chance(1, 2) || i + 1 == bits {
                        mag.set_bit(i);
                    }
                }
                let v = BigI::new(wl.chance(1, 2), mag);
                let c = *wl.pick(&Codec::ALL);
                let l = sleb_min(&v).len();
                let plan = if fl.chance(2, 3) { IoPlan::random(&mut fl, l, true) } else { IoPlan::clean() };
                cases.push(Case::Encode { codec: c, value: v.to_decimal(), plan });
            }
            _ => {
                // a boundary string under a random plan
                let s = boundary_string(wl.below(boundary_total())).unwrap();
                let c = *wl.pick(&Codec::ALL);
                cases.push(Case::Decode { codec: c, bytes: hex(&s), plan: IoPlan::random(&mut fl, s.len(), true) });
            }
        }
    }
    Sc { stack_kib, cases }
}

// ---------------------------------------------------------------- execution

#[derive(Default)]
struct Local {
    events: Vec<String>,
    viol: Vec<(String, String, String)>,
    faults: BTreeMap<String, u64>,
    probes: BTreeMap<String, u64>,
    ops: BTreeMap<String, u64>,
    states: Vec<u64>,
    by_construction: u64,
    nontrivial: u64,
}
impl Local {
    fn v(&mut self, inv: &str, key: String, detail: String) {
        self.viol.push((inv.to_string(), key, detail));
    }
    fn probe(&mut self, k: &str) {
        *self.probes.entry(k.to_string()).or_insert(0) += 1;
    }
    fn op(&mut self, k: &str) {
        *self.ops.entry(k.to_string()).or_insert(0) += 1;
    }
    fn fired(&mut self, f: &crate::kernel::io::IoFired) {
        for (k, n) in [("short_transfer", f.short), ("eintr", f.intr), ("eof_at_offset", f.eof), ("hard_error_at_offset", f.error)] {
            if n > 0 {
                *self.faults.entry(k.to_string()).or_insert(0) += n;
            }
        }
    }
}

fn strip_us(s: String) -> String {
    s.replace('_', "")
}

/// What the reader lets through before it stops.
fn visible_len(bytes: &[u8], plan: &IoPlan) -> usize {
    match &plan.stop {
        Some((at, _)) => bytes.len().min(*at),
        None => bytes.len(),
    }
}

fn check_decode(codec: Codec, bytes: &[u8], plan: &IoPlan, l: &mut Local, log: bool) {
    let key = format!("decode:{codec:?}:{}", hex(bytes));
    let vis = visible_len(bytes, plan);
    let term = leb_prefix(&bytes[..vis]);
    let mut rd = SimReader::new(bytes, plan.clone());
    // run the real decoder
    let got: Guarded<Result<String, String>> = guard(|| match codec {
        Codec::Nat => Nat::decode(&mut rd).map(|n| strip_us(n.to_string())).map_err(|e| e.to_string()),
        Codec::Int => Int::decode(&mut rd).map(|n| strip_us(n.to_string())).map_err(|e| e.to_string()),
        Codec::U128 => candid::types::leb128::decode_nat(&mut rd).map(|n| n.to_string()).map_err(|e| e.to_string()),
        Codec::I128 => candid::types::leb128::decode_int(&mut rd).map(|n| n.to_string()).map_err(|e| e.to_string()),
    });
    let pos = rd.pos;
    l.fired(&rd.fired);
    l.op("standalone_decode");
    let got = match got {
        Guarded::Panicked(m) => {
            l.v("decode-no-panic", format!("{key}@{}", panic_key(&m)), format!("{codec:?} decoder panicked on {} : {m}", hex(bytes)));
            if log {
                l.events.push(format!("dec {codec:?} {} -> PANIC", hex(bytes)));
            }
            return;
        }
        Guarded::Done(g) => g,
    };
    if log {
        l.events.push(format!("dec {codec:?} {} plan={} -> {} pos={pos}", hex(bytes), plan_brief(plan), if got.is_ok() { "ok" } else { "err" }));
    }
    match term {
        None => {
            l.probe("unterminated_or_cut_string");
            if let Ok(v) = got {
                l.v("decode-unterminated-is-error", key, format!("{codec:?} returned Ok({v}) for unterminated/cut input {} (visible {vis} bytes)", hex(bytes)));
            }
        }
        Some((_, n)) => {
            // expected mathematical value
            let (expect, in_range): (String, bool) = if codec.signed() {
                let (v, _) = sleb_value(&bytes[..vis]).unwrap();
                (v.to_decimal(), if codec == Codec::I128 { fits_i128(&v) } else { true })
            } else {
                let (v, _) = leb_value(&bytes[..vis]).unwrap();
                (v.to_decimal(), if codec == Codec::U128 { fits_u128(&v) } else { true })
            };
            if n > 10 {
                l.probe("string_longer_than_10_bytes");
            }
            if n > 19 {
                l.probe("string_longer_than_19_bytes");
            }
            if !in_range {
                l.probe("out_of_128bit_range");
                if let Ok(v) = got {
                    l.v("decode-128-rejects-out-of-range", key, format!("{codec:?} accepted {} as {v}, mathematical value {expect} is out of range", hex(bytes)));
                }
                return;
            }
            match got {
                Err(e) => l.v("decode-terminated-is-value", key, format!("{codec:?} rejected terminated string {} (value {expect}): {e}", hex(bytes))),
                Ok(v) => {
                    if v != expect {
                        l.v("decode-value", key, format!("{codec:?} decoded {} as {v}, mathematical value is {expect}", hex(bytes)));
                    } else if pos != n {
                        l.v("decode-consumes-exactly", key, format!("{codec:?} left the reader at {pos}, the string {} ends at {n}", hex(bytes)));
                    }
                }
            }
        }
    }
}

fn plan_brief(p: &IoPlan) -> String {
    if p.is_clean() {
        return "clean".into();
    }
    format!("{}steps/{:?}", p.steps.len(), p.stop)
}

fn check_encode(codec: Codec, value: &str, plan: &IoPlan, l: &mut Local, log: bool) {
    let v = match BigI::from_decimal(value) {
        Some(v) => v,
        None => return,
    };
    // representable by this codec?
    let expected: Vec<u8> = match codec {
        Codec::Nat => {
            if v.neg {
                return;
            }
            leb_min(&v.mag)
        }
        Codec::U128 => {
            if v.neg || !fits_u128(&v.mag) {
                return;
            }
            leb_min(&v.mag)
        }
        Codec::Int => sleb_min(&v),
        Codec::I128 => {
            if !fits_i128(&v) {
                return;
            }
            sleb_min(&v)
        }
    };
    let key = format!("encode:{codec:?}:{value}");
    let mut w = SimWriter::new(plan.clone());
    let got: Guarded<Result<(), String>> = guard(|| match codec {
        Codec::Nat => Nat::parse(value.as_bytes()).map_err(|e| e.to_string()).and_then(|n| n.encode(&mut w).map_err(|e| e.to_string())),
        Codec::Int => Int::parse(value.as_bytes()).map_err(|e| e.to_string()).and_then(|n| n.encode(&mut w).map_err(|e| e.to_string())),
        Codec::U128 => candid::types::leb128::encode_nat(&mut w, value.parse::<u128>().unwrap()).map_err(|e| e.to_string()),
        Codec::I128 => candid::types::leb128::encode_int(&mut w, value.parse::<i128>().unwrap()).map_err(|e| e.to_string()),
    });
    l.fired(&w.fired);
    l.op("standalone_encode");
    let got = match got {
        Guarded::Panicked(m) => {
            l.v("encode-no-panic", format!("{key}@{}", panic_key(&m)), format!("{codec:?} encoder panicked on {value}: {m}"));
            return;
        }
        Guarded::Done(g) => g,
    };
    if log {
        l.events.push(format!("enc {codec:?} {value} plan={} -> {} wrote={}", plan_brief(plan), if got.is_ok() { "ok" } else { "err" }, hex(&w.accepted)));
    }
    let can_complete = match &plan.stop {
        Some((at, _)) => *at >= expected.len(),
        None => true,
    };
    match got {
        Ok(()) => {
            if w.accepted != expected {
                l.v("encode-minimal", key, format!("{codec:?} encoded {value} as {}, minimal encoding is {}", hex(&w.accepted), hex(&expected)));
            }
        }
        Err(e) => {
            if can_complete {
                l.v("encode-completes", key, format!("{codec:?} failed to encode {value} although the writer could take all {} bytes: {e}", expected.len()));
            } else if !expected.starts_with(&w.accepted) {
                l.v("encode-prefix-on-error", key, format!("{codec:?} wrote {} before failing; not a prefix of {}", hex(&w.accepted), hex(&expected)));
            } else {
                l.probe("encode_failed_with_prefix_written");
            }
        }
    }
}

fn leb_u(n: usize) -> Vec<u8> {
    leb_min(&BigU::from_u64(n as u64))
}

/// Build the message and evaluate the real decoder; returns (message, outcome)
/// where outcome is Ok(list of decimal values seen, sentinel ok) or Err.
fn run_in_message(shape: Shape, s: &[u8]) -> (Vec<u8>, Guarded<Result<Vec<String>, String>>) {
    use std::collections::BTreeMap as M;
    let mut m = b"DIDL".to_vec();
    let nat = 0x7du8;
    let int = 0x7cu8;
    let nat8 = 0x7bu8;
    let text = 0x71u8;
    let e2s = |e: candid::Error| e.to_string();
    match shape {
        Shape::NatThen8 | Shape::IntThen8 | Shape::IntFromNatThen8 | Shape::U128Then8 | Shape::I128Then8 | Shape::I128FromNatThen8 => {
            let wire = if matches!(shape, Shape::IntThen8 | Shape::I128Then8) { int } else { nat };
            m.extend_from_slice(&[0x00, 0x02, wire, nat8]);
            m.extend_from_slice(s);
            m.push(0xA5);
            let mm = m.clone();
            let r = guard(move || match shape {
                Shape::NatThen8 => Decode!(&mm, Nat, u8).map_err(e2s).and_then(|(a, b)| sentinel(b, vec![strip_us(a.to_string())])),
                Shape::IntThen8 | Shape::IntFromNatThen8 => Decode!(&mm, Int, u8).map_err(e2s).and_then(|(a, b)| sentinel(b, vec![strip_us(a.to_string())])),
                Shape::U128Then8 => Decode!(&mm, u128, u8).map_err(e2s).and_then(|(a, b)| sentinel(b, vec![a.to_string()])),
                _ => Decode!(&mm, i128, u8).map_err(e2s).and_then(|(a, b)| sentinel(b, vec![a.to_string()])),
            });
            (m, r)
        }
        Shape::VecNat | Shape::VecInt | Shape::VecIntFromNat => {
            let wire = if shape == Shape::VecInt { int } else { nat };
            // table: 0: vec <wire>; args (table0, nat8); values: 3 elements then the sentinel
            m.extend_from_slice(&[0x01, 0x6d, wire, 0x02, 0x00, nat8]);
            m.push(0x03);
            for _ in 0..3 {
                m.extend_from_slice(s);
            }
            m.push(0xA5);
            let mm = m.clone();
            let r = guard(move || match shape {
                Shape::VecNat => Decode!(&mm, Vec<Nat>, u8).map_err(e2s).and_then(|(a, b)| sentinel(b, a.iter().map(|x| strip_us(x.to_string())).collect())),
                _ => Decode!(&mm, Vec<Int>, u8).map_err(e2s).and_then(|(a, b)| sentinel(b, a.iter().map(|x| strip_us(x.to_string())).collect())),
            });
            (m, r)
        }
        Shape::MapTextInt => {
            // table: 0: vec 1 ; 1: record {0:text; 1:int}
            m.extend_from_slice(&[0x02, 0x6d, 0x01, 0x6c, 0x02, 0x00, text, 0x01, int, 0x02, 0x00, nat8]);
            m.push(0x02);
            for k in ["a", "bb"] {
                m.extend_from_slice(&leb_u(k.len()));
                m.extend_from_slice(k.as_bytes());
                m.extend_from_slice(s);
            }
            m.push(0xA5);
            let mm = m.clone();
            let r = guard(move || {
                Decode!(&mm, M<String, Int>, u8).map_err(e2s).and_then(|(a, b)| {
                    if a.len() != 2 {
                        return Err(format!("map has {} entries", a.len()));
                    }
                    sentinel(b, a.values().map(|x| strip_us(x.to_string())).collect())
                })
            });
            (m, r)
        }
        Shape::MapNatNat => {
            m.extend_from_slice(&[0x02, 0x6d, 0x01, 0x6c, 0x02, 0x00, nat, 0x01, nat, 0x02, 0x00, nat8]);
            m.push(0x01);
            m.extend_from_slice(s);
            m.extend_from_slice(s);
            m.push(0xA5);
            let mm = m.clone();
            let r = guard(move || {
                Decode!(&mm, M<Nat, Nat>, u8).map_err(e2s).and_then(|(a, b)| {
                    let mut out = Vec::new();
                    for (k, v) in a.iter() {
                        out.push(strip_us(k.to_string()));
                        out.push(strip_us(v.to_string()));
                    }
                    sentinel(b, out)
                })
            });
            (m, r)
        }
        Shape::MapIntKeyNat => {
            m.extend_from_slice(&[0x02, 0x6d, 0x01, 0x6c, 0x02, 0x00, int, 0x01, nat, 0x02, 0x00, nat8]);
            m.push(0x01);
            m.extend_from_slice(s);
            m.push(0x07);
            m.push(0xA5);
            let mm = m.clone();
            let r = guard(move || {
                Decode!(&mm, M<Int, Nat>, u8).map_err(e2s).and_then(|(a, b)| {
                    let mut out = Vec::new();
                    for (k, v) in a.iter() {
                        out.push(strip_us(k.to_string()));
                        if strip_us(v.to_string()) != "7" {
                            return Err(format!("map value read as {v}, expected 7"));
                        }
                    }
                    sentinel(b, out)
                })
            });
            (m, r)
        }
        Shape::MapU8Int => {
            m.extend_from_slice(&[0x02, 0x6d, 0x01, 0x6c, 0x02, 0x00, nat8, 0x01, int, 0x02, 0x00, nat8]);
            m.push(0x02);
            m.push(0x01);
            m.extend_from_slice(s);
            m.push(0x02);
            m.extend_from_slice(s);
            m.push(0xA5);
            let mm = m.clone();
            let r = guard(move || {
                Decode!(&mm, M<u8, Int>, u8).map_err(e2s).and_then(|(a, b)| {
                    if a.len() != 2 {
                        return Err(format!("map has {} entries", a.len()));
                    }
                    sentinel(b, a.values().map(|x| strip_us(x.to_string())).collect())
                })
            });
            (m, r)
        }
        Shape::OptNat | Shape::OptInt => {
            let wire = if shape == Shape::OptInt { int } else { nat };
            m.extend_from_slice(&[0x01, 0x6e, wire, 0x02, 0x00, nat8, 0x01]);
            m.extend_from_slice(s);
            m.push(0xA5);
            let mm = m.clone();
            let r = guard(move || match shape {
                Shape::OptNat => Decode!(&mm, Option<Nat>, u8).map_err(e2s).and_then(|(a, b)| match a {
                    Some(a) => sentinel(b, vec![strip_us(a.to_string())]),
                    None => Err("decoded as None".into()),
                }),
                _ => Decode!(&mm, Option<Int>, u8).map_err(e2s).and_then(|(a, b)| match a {
                    Some(a) => sentinel(b, vec![strip_us(a.to_string())]),
                    None => Err("decoded as None".into()),
                }),
            });
            (m, r)
        }
        Shape::UntypedNat | Shape::UntypedInt | Shape::UntypedIntFromNat => {
            use candid::types::{TypeEnv, TypeInner};
            use candid::{IDLArgs, IDLValue};
            let wire = if shape == Shape::UntypedInt { int } else { nat };
            m.extend_from_slice(&[0x00, 0x02, wire, nat8]);
            m.extend_from_slice(s);
            m.push(0xA5);
            let mm = m.clone();
            let r = guard(move || {
                let args = if shape == Shape::UntypedIntFromNat {
                    IDLArgs::from_bytes_with_types(&mm, &TypeEnv::new(), &[TypeInner::Int.into(), TypeInner::Nat8.into()])
                } else {
                    IDLArgs::from_bytes(&mm)
                }
                .map_err(e2s)?;
                let b = match args.args.get(1) {
                    Some(IDLValue::Nat8(b)) => *b,
                    other => return Err(format!("second argument is {:?}", other.map(|v| v.to_string()))),
                };
                match &args.args[0] {
                    IDLValue::Nat(n) => sentinel(b, vec![strip_us(n.to_string())]),
                    IDLValue::Int(n) => sentinel(b, vec![strip_us(n.to_string())]),
                    o => Err(format!("first argument is {o}")),
                }
            });
            (m, r)
        }
    }
}

fn sentinel(b: u8, vals: Vec<String>) -> Result<Vec<String>, String> {
    if b == 0xA5 {
        Ok(vals)
    } else {
        Err(format!("sentinel read as {b:#x}"))
    }
}

fn check_in_message(shape: Shape, s: &[u8], l: &mut Local, log: bool) {
    let key = format!("msg:{shape:?}:{}", hex(s));
    l.op("in_message_decode");
    // expectation
    let exact = leb_prefix(s).map(|(_, n)| n == s.len()).unwrap_or(false);
    let (msg, got) = run_in_message(shape, s);
    let got = match got {
        Guarded::Panicked(m) => {
            l.v("decode-no-panic", format!("{key}@{}", panic_key(&m)), format!("in-message decoder {shape:?} panicked on {} (message {}): {m}", hex(s), hex(&msg)));
            return;
        }
        Guarded::Done(g) => g,
    };
    if log {
        l.events.push(format!("msg {shape:?} {} -> {}", hex(s), if got.is_ok() { "ok" } else { "err" }));
    }
    if !exact {
        // The embedded string is unterminated or has bytes after its terminator:
        // the message as a whole is then some other message (the following bytes
        // are re-interpreted). No expectation other than "does not panic".
        l.probe("in_message_inexact_string");
        return;
    }
    let (expect, in_range) = if shape.wire_signed() {
        let (v, _) = sleb_value(s).unwrap();
        let fits = match shape {
            Shape::I128Then8 => fits_i128(&v),
            _ => true,
        };
        (v.to_decimal(), fits)
    } else {
        let (v, _) = leb_value(s).unwrap();
        let fits = match shape {
            Shape::U128Then8 => fits_u128(&v),
            Shape::I128FromNatThen8 => v.bits() <= 127,
            _ => true,
        };
        (v.to_decimal(), fits)
    };
    if !in_range {
        l.probe("in_message_out_of_128bit_range");
        if let Ok(v) = got {
            l.v("decode-128-rejects-out-of-range", key, format!("{shape:?} accepted {} as {:?}; value {expect} is out of range", hex(s), v));
        }
        return;
    }
    match got {
        Err(e) => l.v("decode-terminated-is-value", key, format!("{shape:?} rejected {} (value {expect}) in message {}: {e}", hex(s), hex(&msg))),
        Ok(vals) => {
            if vals.is_empty() || vals.iter().any(|v| *v != expect) {
                l.v("decode-value", key, format!("{shape:?} decoded {} as {:?}, mathematical value is {expect} (message {})", hex(s), vals, hex(&msg)));
            }
        }
    }
}

fn run_cases(sc: &Sc, log: bool) -> Local {
    let mut l = Local::default();
    for k in ["unterminated_or_cut_string", "string_longer_than_10_bytes", "string_longer_than_19_bytes", "out_of_128bit_range", "in_message_out_of_128bit_range", "in_message_inexact_string", "encode_failed_with_prefix_written"] {
        l.probes.entry(k.to_string()).or_insert(0);
    }
    for c in &sc.cases {
        match c {
            Case::Decode { codec, bytes, plan } => {
                let b = unhex(bytes);
                l.states.push(fnv1a(format!("d{codec:?}{bytes}{plan:?}").as_bytes()));
                if b.len() > 1 || !plan.is_clean() {
                    l.nontrivial += 1;
                }
                check_decode(*codec, &b, plan, &mut l, log);
            }
            Case::Encode { codec, value, plan } => {
                l.states.push(fnv1a(format!("e{codec:?}{value}{plan:?}").as_bytes()));
                l.nontrivial += 1;
                check_encode(*codec, value, plan, &mut l, log);
            }
            Case::InMessage { shape, bytes } => {
                let b = unhex(bytes);
                l.states.push(fnv1a(format!("m{shape:?}{bytes}").as_bytes()));
                l.nontrivial += 1;
                check_in_message(*shape, &b, &mut l, log);
            }
            Case::Exhaust { len, lead } => {
                let lead = unhex(lead);
                let free = *len as usize - lead.len();
                let count = 1usize << (8 * free);
                for x in 0..count {
                    let mut s = lead.clone();
                    for j in 0..free {
                        s.push((x >> (8 * (free - 1 - j))) as u8);
                    }
                    for c in Codec::ALL {
                        check_decode(c, &s, &IoPlan::clean(), &mut l, false);
                    }
                    // one-byte-chunk reader and the in-message decoders on every 8th string
                    if x % 8 == 0 {
                        let p = IoPlan { steps: vec![IoStep::Short(1); 4], stop: None };
                        check_decode(Codec::Nat, &s, &p, &mut l, false);
                        check_decode(Codec::Int, &s, &p, &mut l, false);
                        for sh in [Shape::NatThen8, Shape::IntThen8, Shape::U128Then8, Shape::I128Then8, Shape::VecInt, Shape::UntypedInt] {
                            check_in_message(sh, &s, &mut l, false);
                        }
                    }
                    l.by_construction += 1;
                }
                *l.ops.entry(format!("exhaustive_strings_len{len}")).or_insert(0) += count as u64;
                if log {
                    l.events.push(format!("exhaust len={len} lead={} ({count} strings)", hex(&lead)));
                }
            }
        }
    }
    l
}

pub fn execute(sc: &Sc, ctx: &mut Ctx) -> Result<(), String> {
    let sc2 = sc.clone();
    let keep = ctx.log.lines.is_some();
    let l = on_thread(sc.stack_kib * 1024, move || run_cases(&sc2, true)).map_err(|e| format!("stream engine panicked outside a guarded call: {e}"))?;
    let _ = keep;
    for e in &l.events {
        ctx.ev(e);
    }
    ctx.stats.steps += sc.cases.len() as u64;
    for (k, n) in &l.faults {
        ctx.stats.fault(k, *n);
    }
    for (k, n) in &l.probes {
        ctx.stats.probe_n(k, *n);
    }
    for (k, n) in &l.ops {
        *ctx.stats.ops.entry(k.clone()).or_insert(0) += n;
        if let Some(rest) = k.strip_prefix("exhaustive_strings_") {
            *ctx.stats.exhaustive_parts.entry(rest.to_string()).or_insert(0) += n;
        }
    }
    for h in &l.states {
        ctx.stats.state(*h);
    }
    ctx.stats.distinct_overflow += l.by_construction;
    if l.nontrivial > 0 || l.by_construction > 0 {
        ctx.stats.nontrivial_runs += 1;
    }
    if ctx.stats.samples.len() < 6 {
        if let Some(c) = sc.cases.iter().find(|c| matches!(c, Case::Decode { plan, .. } if !plan.is_clean())) {
            ctx.stats.sample(serde_json::to_value(c).unwrap());
        } else if let Some(c) = sc.cases.first() {
            ctx.stats.sample(serde_json::to_value(c).unwrap());
        }
    }
    for (inv, key, detail) in l.viol {
        ctx.violate(&inv, &key, detail);
    }
    Ok(())
}

pub fn size(sc: &Sc) -> usize {
    sc.cases
        .iter()
        .map(|c| match c {
            Case::Decode { bytes, plan, .. } => 1 + bytes.len() / 2 + plan.steps.len() + plan.stop.is_some() as usize,
            Case::Encode { value, plan, .. } => 1 + value.len() + plan.steps.len() + plan.stop.is_some() as usize,
            Case::InMessage { bytes, .. } => 1 + bytes.len() / 2,
            Case::Exhaust { len, lead } => 1000 * (1 + *len as usize - lead.len() / 2),
        })
        .sum()
}

pub fn shrink(sc: &Sc) -> Vec<Sc> {
    let mut out = Vec::new();
    let mk = |cases: Vec<Case>| Sc { stack_kib: sc.stack_kib, cases };
    if sc.cases.len() > 1 {
        // halves, then single cases
        let h = sc.cases.len() / 2;
        out.push(mk(sc.cases[..h].to_vec()));
        out.push(mk(sc.cases[h..].to_vec()));
        if sc.cases.len() <= 64 {
            for c in &sc.cases {
                out.push(mk(vec![c.clone()]));
            }
        }
        return out;
    }
    if let Some(c) = sc.cases.first() {
        match c {
            Case::Exhaust { len, lead } => {
                // split into sub-blocks
                if (*len as usize) > lead.len() / 2 {
                    let free = *len as usize - lead.len() / 2;
                    if free >= 1 {
                        for b in 0..=255u8 {
                            let mut l2 = unhex(lead);
                            l2.push(b);
                            if l2.len() == *len as usize {
                                for cd in Codec::ALL {
                                    out.push(mk(vec![Case::Decode { codec: cd, bytes: hex(&l2), plan: IoPlan::clean() }]));
                                }
                                for sh in [Shape::NatThen8, Shape::IntThen8, Shape::U128Then8, Shape::I128Then8, Shape::VecInt, Shape::UntypedInt] {
                                    out.push(mk(vec![Case::InMessage { shape: sh, bytes: hex(&l2) }]));
                                }
                            } else {
                                out.push(mk(vec![Case::Exhaust { len: *len, lead: hex(&l2) }]));
                            }
                        }
                    }
                }
            }
            Case::Decode { codec, bytes, plan } => {
                if !plan.is_clean() {
                    out.push(mk(vec![Case::Decode { codec: *codec, bytes: bytes.clone(), plan: IoPlan::clean() }]));
                    if plan.stop.is_some() {
                        out.push(mk(vec![Case::Decode { codec: *codec, bytes: bytes.clone(), plan: IoPlan { steps: plan.steps.clone(), stop: None } }]));
                    }
                    if !plan.steps.is_empty() {
                        out.push(mk(vec![Case::Decode { codec: *codec, bytes: bytes.clone(), plan: IoPlan { steps: vec![], stop: plan.stop.clone() } }]));
                    }
                }
                let b = unhex(bytes);
                for i in 0..b.len() {
                    if b.len() > 1 {
                        let mut c2 = b.clone();
                        c2.remove(i);
                        out.push(mk(vec![Case::Decode { codec: *codec, bytes: hex(&c2), plan: plan.clone() }]));
                    }
                }
            }
            Case::InMessage { shape, bytes } => {
                let b = unhex(bytes);
                for i in 0..b.len() {
                    if b.len() > 1 {
                        let mut c2 = b.clone();
                        c2.remove(i);
                        out.push(mk(vec![Case::InMessage { shape: *shape, bytes: hex(&c2) }]));
                    }
                }
            }
            Case::Encode { codec, value, plan } => {
                if !plan.is_clean() {
                    out.push(mk(vec![Case::Encode { codec: *codec, value: value.clone(), plan: IoPlan::clean() }]));
                }
            }
        }
    }
    out
}
