//! Dispatch from property ids to engines. Scenarios cross this boundary as JSON
//! so that the kernel (supervisor, replay, minimiser) stays engine agnostic.

use crate::kernel::report::{Ctx, PropertyMeta, Stats, Tier};

pub mod stream;

pub const CLAIMED: [&str; 1] = ["C09"];

static META: [PropertyMeta; 1] = [PropertyMeta {
    id: "C09",
    level: "exploration",
    engine: "stream-sim",
    rule: "cases = (codec, byte string or integer, reader/writer fault plan) for the standalone codecs and (message shape, byte string) for in-message decoders; enumerated families: every string of <=2 bytes (quick; <=3 bytes thorough, quick samples 3-byte blocks), 6160 sign/padding boundary strings of 7-11 and 17-22 bytes each under every EOF/error offset, 1-byte chunking and EINTR, all of +-2^k, +-2^k+-1 for k<=200 minimal and padded; seeded random strings <=40 bytes and numbers <=260 bits under seeded plans. distinct = distinct (codec|shape, input, plan) triples (strings of the exhaustive blocks are distinct by construction and counted without hashing); non-trivial = string longer than 1 byte or a fault plan present.",
    assumptions: &[
        "the harness's own limb arithmetic (models/bigint.rs, unit-tested against known vectors) is the definition of (S)LEB128 value and minimal form",
        "candid::Nat/Int are compared through their decimal Display and built through Nat::parse/Int::parse (num-bigint decimal conversion is trusted)",
        "in-message decoders (Decode! at Nat/Int/u128/i128/Vec/BTreeMap/Option, IDLArgs::from_bytes) are reached by workload only: no schedule or fault can be injected below a byte slice",
    ],
    real_components: &["candid::Nat::{encode,decode}", "candid::Int::{encode,decode}", "candid::types::leb128::{encode_nat,encode_int,decode_nat,decode_int}", "candid::de (in-message paths)", "num-bigint", "leb128 crate"],
    stub_components: &["io::Read -> SimReader (short read, EINTR, EOF/error at offset)", "io::Write -> SimWriter (short write, EINTR, write-zero/error at offset)"],
}];

pub fn meta(prop: &str) -> Option<&'static PropertyMeta> {
    META.iter().find(|m| m.id == prop)
}

pub fn runs_for(prop: &str, tier: Tier) -> u64 {
    match prop {
        "C09" => stream::runs_for(tier),
        _ => 0,
    }
}

pub fn generate(prop: &str, tier: Tier, seed: u64, run: u64) -> serde_json::Value {
    match prop {
        "C09" => serde_json::to_value(stream::generate(tier, seed, run)).unwrap(),
        _ => serde_json::Value::Null,
    }
}

fn parse<T: serde::de::DeserializeOwned>(sc: &serde_json::Value) -> Result<T, String> {
    serde_json::from_value(sc.clone()).map_err(|e| format!("bad scenario: {e}"))
}

pub fn execute(prop: &str, sc: &serde_json::Value, ctx: &mut Ctx) -> Result<(), String> {
    match prop {
        "C09" => stream::execute(&parse(sc)?, ctx),
        _ => Err(format!("no engine for {prop}")),
    }
}

pub fn shrink(prop: &str, sc: &serde_json::Value) -> Vec<serde_json::Value> {
    match prop {
        "C09" => parse::<stream::Sc>(sc).map(|s| stream::shrink(&s).into_iter().map(|x| serde_json::to_value(x).unwrap()).collect()).unwrap_or_default(),
        _ => vec![],
    }
}

pub fn size(prop: &str, sc: &serde_json::Value) -> usize {
    match prop {
        "C09" => parse::<stream::Sc>(sc).map(|s| stream::size(&s)).unwrap_or(0),
        _ => 0,
    }
}

/// Invariants whose evaluation may kill the process must be minimised in a child.
pub fn crash_class(invariant: &str) -> bool {
    invariant == "process-death" || invariant.starts_with("crash-")
}

pub fn extra_evidence(prop: &str, tier: Tier, stats: &Stats) -> serde_json::Value {
    match prop {
        "C09" => {
            let l1 = stats.exhaustive_parts.get("len1").copied().unwrap_or(0);
            let l2 = stats.exhaustive_parts.get("len2").copied().unwrap_or(0);
            let l3 = stats.exhaustive_parts.get("len3").copied().unwrap_or(0);
            serde_json::json!({
                "exhaustive": l1 == 256 && l2 == 65536 && (tier == Tier::Quick || l3 == 16777216),
                "exhaustive_note": format!("all {l1} 1-byte and {l2} 2-byte strings; {l3} of 16777216 3-byte strings; x4 standalone codecs each"),
                "workload_only_components": ["in-message decoders (no seam below a byte slice)"],
            })
        }
        _ => serde_json::json!({}),
    }
}
