//! Dispatch from property ids to engines. Scenarios cross this boundary as JSON
//! so that the kernel (supervisor, replay, minimiser) stays engine agnostic.

use crate::kernel::report::{Ctx, PropertyMeta, Stats, Tier};

pub mod entropy;
pub mod gamma;
pub mod memo;
pub mod stream;
pub mod wire04;
pub mod wire06;
pub mod wire07;

pub const CLAIMED: [&str; 8] = ["C01", "C03", "C04", "C05", "C06", "C07", "C09", "C20"];

static META: [PropertyMeta; 8] = [
    PropertyMeta {
        id: "C01",
        level: "exploration",
        engine: "memo-sim",
        rule: "a run = 1-3 worlds (OS threads with seeded stack sizes, released one at a time) and 3-6 cooperative tasks whose stages are single public API calls (T::ty, IDLBuilder::new/default, arg, serialize/serialize_to_vec, Encode!/encode_one, IDLDeserialize::new_with_config, get_value, done, Decode!/decode_one, try_from_candid_type, TypeContainer::add, subtype on knot types, env_clear) over a corpus of ~430 concrete Rust types (cross product of element/key/value types under every container, derived, generic, renamed, recursive and mutually recursive types, two different local types with the same std::any::type_name; texts and vectors of one-byte elements sometimes have lengths 127/128/129/16383/16384/16385), interleaved by a seeded scheduler (sequential, uniform, bursty, alternating) with injected history events: env_clear at arbitrary instants, arguments that fail mid-value, decodes that fail mid-value (truncated message, quota abort, wrong type), abandoned builders/decoders, writer faults. Every task is also executed alone on a fresh thread as the reference. distinct = distinct (fingerprint of the thread memo before the call over 12 tracked recursive/derived types, API call kind, corpus type). non-trivial = at least two tasks shared a thread.",
        assumptions: &[
            "'whatever ran before' = earlier completed or failed API calls of any task on the thread, and env_clear (public); re-entrancy from inside user Deserialize impls is not generated",
            "bytes are not required to be equal across different histories (the source documents that memo order may change the table layout), only outcomes and decoded values",
            "corpus values are compared through hand-written abstract values (floats bit-for-bit, hash containers as sets)",
            "after an arg or get_value that returned Err the builder/decoder is abandoned; nothing is demanded of it",
        ],
        real_components: &["candid::ser (IDLBuilder, TypeSerialize, ValueSerializer)", "candid::de (IDLDeserialize, Deserializer)", "candid::types (thread-local type memo, CandidType impls, subtype, TypeContainer)", "candid_derive", "serde, num-bigint, stacker (real remaining stack on real small stacks)"],
        stub_components: &["io::Write -> SimWriter", "scheduler: which task's next API call runs, on which thread"],
    },
    PropertyMeta {
        id: "C03",
        level: "exploration",
        engine: "memo-sim + writer seam",
        rule: "same worlds, tasks and histories as C01, plus typed-untyped tasks (value_arg_with_type, IDLArgs::to_bytes_with_types over generated (environment, type, value) triples incl. recursive definitions and primitive aliases, a third of them handed over in a looser spelling that the re-annotation accepts: nat value or bare number literal at int, null/reserved for an absent option, anything at reserved, float64 at float32, omitted null/opt/reserved fields, fields in any order); every byte string for which the real API returned Ok is parsed by the reference wire decoder RD (written from the spec) and compared with the harness-side type (bisimulation) and abstract value; serialize runs against SimWriter fault plans, is retried after writer errors and repeated on the same builder; one-shot encodes run twice back to back. distinct = distinct (memo fingerprint, API call kind, corpus type). non-trivial = at least two tasks shared a thread.",
        assumptions: &[
            "models/rd.rs is the definition of the binary grammar (strict: composite-only table, ascending ids/names, <=1 annotation, indices in range, canonical bool/opt tags, nothing left over)",
            "corpus types carry hand-written sim_type()/av() that do not go through CandidType::_ty() or idl_serialize",
            "value_arg/to_bytes without types (type inference) are not judged; after a failed arg the builder is abandoned",
            "breadth of type shapes is that of the workload corpus",
        ],
        real_components: &["candid::ser", "candid::types::value (annotate_type, idl_serialize of IDLValue)", "candid_derive", "thread-local type memo"],
        stub_components: &["io::Write -> SimWriter (short write, EINTR, write-zero, hard error at offset)", "scheduler"],
    },
    PropertyMeta {
        id: "C04",
        level: "exploration",
        engine: "wire-sim",
        rule: "a run = one generated environment, one service lineage of up to 7 candidate versions produced by random upgrade steps (add/drop optional field, add required field in results, add/drop variant case under opt, int->nat in results, nat->int / wrap in opt / to reserved in arguments, function/service reference signatures, append optional argument/result, add method, deliberately unrelated rewrites), each deployed only if the real checker accepts it (type-level subtype, or service_compatible on harness-printed text), 1-4 clients pinned to the version current when they joined, 2-10 calls and their replies travelling with seeded delays on a discrete-event network (so that they are delivered after later upgrades), duplicated calls, relays holding an intermediate version, plus 2-8 native pairings, and an enumerated segment in which the first runs pair every corpus type as sender with every corpus type as receiver, 48 receivers per run (value of Rust type S decoded at Rust type R when the checker accepts S <: R; the decoded Rust value must be the sent value seen at R's type; host-limited receivers excluded, 128-bit receivers get senders whose numbers stay below 2^120). distinct = distinct (multiset of upgrade-step kinds between sender and receiver version, direction/method) and distinct native (sender, receiver) pairs. non-trivial = a message was delivered across at least one upgrade, or a native pairing of two different types was accepted.",
        assumptions: &[
            "decode success is demanded only for (sender type, receiver type) pairs the real checker accepts directly at delivery time; pairs several upgrades apart that it does not accept are counted, not judged (transitivity is C05)",
            "the oracle is deliberately weak: decoding succeeds, the result is of the receiver's type (own typing judgement), relayed values are coherent per the spec's ~ relation; for native receivers the result is compared with the sent value field by field (models::stype::coerced: exact except that any option may have become absent and that host sets/maps may reorder/deduplicate); full equality with spec coercion would be C02",
            "native receivers with host limits ([T;N], ByteArray<N>, BoundedVec, Duration, PathBuf; u128/i128 unless the sender is a SmallNat/SmallInt type) only receive from the same Rust type",
            "values are generated by the harness as inhabitants of the sender's type and encoded by the real typed-untyped encoder",
        ],
        real_components: &["candid::types::subtype (the deployment gate)", "candid_parser::utils::service_compatible + parser + type checker (text gate)", "candid::de via IDLArgs::from_bytes_with_types and native decode_one", "candid::ser via to_bytes_with_types / encode_one"],
        stub_components: &["network: discrete-event queue with seeded delays, duplication (SimNet)", "parties: clients, service versions and relays are harness objects holding versions of the interface"],
    },
    PropertyMeta {
        id: "C05",
        level: "exploration",
        engine: "gamma-sim",
        rule: "a run = one generated environment (1-6 definitions plus a mutated twin of each, recursive and mutually recursive, all constructors, references) under a seeded renaming of definitions, 1-3 caller-held memos, and a seeded history of 3-14 queries (random pairs, a type against its mutated twin, a record minus one field, every axiom of the relation and its converse under vec/record/variant/func contexts) over the entry points subtype / subtype_with_config(Silence) / subtype_check_all / equal, plus text-level service_compatible / service_compatibility_report / service_equal on harness-printed programs with permuted definition, field and method order; enumerated family: for small environments (2 definitions, 49 bodies each) every history of two queries over 36 type pairs on one memo. distinct = distinct (canonical hash of memo contents before the query, entry point, query pair); enumerated histories are distinct by construction. non-trivial = the query ran on a memo that already held assumptions from earlier successful queries.",
        assumptions: &[
            "models/gfp.rs (greatest fixed point of the rules of spec/Candid.md §Rules over reachable pairs, unit-tested) is the definition of the relation; the four opt rules together make every type a subtype of every option type",
            "a memo that has seen a failed top-level query is retired (the statement promises independence from earlier successful checks and from internal probes only)",
            "OptReport::Error mode is not part of the statement and is not exercised; class types only at top level and not generated",
            "text-level programs are printed by the harness's own printer; a program the parser does not load is counted as inconclusive, not as a violation",
        ],
        real_components: &["candid::types::subtype::{subtype, subtype_with_config, subtype_check_all, equal}", "candid_parser::utils::{service_compatible, service_compatibility_report, service_equal}", "candid_parser parser and type checker", "TypeEnv::merge_type"],
        stub_components: &["none: the scheduler only decides the order of API calls and which memo they share"],
    },
    PropertyMeta {
        id: "C06",
        level: "exploration",
        engine: "wire-sim (hostile mode)",
        rule: "a run = one delivery: (a) an honest in-flight message (corpus value or generated typed-untyped value, half of the generated types with labels a .did author may legally quote: commas, quotes, empty, non-ASCII, numeric-looking) damaged by 0-3 channel faults (truncate, bit flip, boundary-byte substitution, span delete/duplicate, splice with another in-flight message, inflate a LEB128 length, insert bytes) or (b) a Byzantine construction (opt/vec chains up to depth 10000 with values nested up to 50000, self-referential records/variants, vectors of zero-sized elements with counts up to 2^63, table length 9999/10000/10001/2^32, argument/field counts 2^32, bad/unsorted/duplicate ids and method names, annotations, future opcodes with lengths up to 2^63, bad indices, LEB128 padding, lengths beyond the input, reference flags/lengths, bad tags, fixed-width primitive vectors with lengths around 2^64/size at the exactly matching native receiver, type T = opt T / vec T with values nested 65534-70000 levels received on a 2 GiB thread stack); receiver = native corpus type, generated untyped types, from_bytes without type, or done() only; knobs per run: thread stack 64 KiB-8 MiB (2 GiB for the deep-nesting family), decoding quota none/0/1-50/1000/100000, skipping quota likewise, max_type_len, full error messages on/off. distinct = distinct (receiver, message kind, outcome class, error prefix). non-trivial = the message is not an undamaged honest message.",
        assumptions: &[
            "a worker process that dies (SIGSEGV from stack overflow, SIGABRT from abort or a refused >2 GiB allocation) is identified by its journal and reported as a violation; a wall-clock watchdog backs this up",
            "work is counted by the tick hook (element/entry loops of the decoder, deserialize_any, subtype_); with a decoding quota q: ticks <= 16 q + 64 len + 20000 and live heap <= 64 MiB + 2 MiB len + 256 KiB q — constants at least 8x the largest ratios measured on the unchanged tree (recorded under measured_maxima) and 8x serde's cautious 1 MiB pre-allocation per in-progress container, because the statement fixes no constants",
            "without a decoding quota there is no work bound in the statement: reaching the tick cap is counted as inconclusive",
            "allocation failure is not injected (it aborts, it does not unwind); only accounting and a single-request ceiling",
            "debug profile by default (overflow checks and debug assertions on); SIM_PROFILE=release runs the same check on the release profile",
        ],
        real_components: &["candid::binary_parser (header, type table)", "candid::de (native and untyped)", "candid::types::subtype (from check_subtype)", "candid::types::value visitor", "stacker (real remaining stack on real small stacks)", "the system allocator behind a counting wrapper"],
        stub_components: &["network: SimNet hostile channel (damage operators)", "sender: ByzantineSender (hand-rolled binary writer)", "thread stack size per run", "work counter / cap (verif-hooks)"],
    },
    PropertyMeta {
        id: "C07",
        level: "fault_enumeration",
        engine: "wire-sim (metered mode)",
        rule: "a run = 1-3 honest deliveries: a generated (environment, wire types, values) message decoded through the untyped API at the same / an upgraded / a mutated / an opt-wrapped expected type list with surplus or missing arguments, or a corpus value (plus optional surplus argument) decoded natively at the same or another corpus type; wire types include vectors of zero-sized elements, references, text-keyed and big-number maps, recursive types. Per delivery the fault 'quota exhausted after k units' is enumerated: every decoding quota in 0..cost+1 and every skipping quota in 0..cost+1 (all points when the cost is <= 4000, else boundaries + 64 seeded points) plus the 3x3 boundary cross. distinct = distinct (delivery description, measured cost pair). non-trivial = the delivery decodes unmetered, so its abort points were enumerated.",
        assumptions: &[
            "value and skip counts come from the harness's own abstract values; the skip lower bound counts only what is certainly skipped (surplus arguments, surplus record fields; everything in the untyped API)",
            "the upper bound (cost <= 8 x documented model, model transcribed from the doc comment of set_decoding_quota, 50x for the untyped API) is evaluated for identity decodes only",
            "if the unmetered decode fails, any error is accepted under quotas",
        ],
        real_components: &["candid::de (all cost accounting, opt back-tracking, skipping)", "DecoderConfig::compute_cost", "candid::ser for the honest messages"],
        stub_components: &["none below the API: the injected fault is the quota value itself"],
    },
    PropertyMeta {
        id: "C09",
        level: "exploration",
        engine: "stream-sim",
        rule: "cases = (codec, byte string or integer, reader/writer fault plan) for the standalone codecs and (message shape, byte string) for in-message decoders; enumerated families: every string of <=2 bytes (quick; <=3 bytes thorough, quick samples 3-byte blocks), 6160 sign/padding boundary strings of 7-11 and 17-22 bytes each under every EOF/error offset, 1-byte chunking and EINTR, all of +-2^k, +-2^k+-1 for k<=200 minimal and padded; seeded random strings <=40 bytes and numbers <=260 bits under seeded plans. distinct = distinct (codec|shape, input, plan) triples (strings of the exhaustive blocks are distinct by construction and counted without hashing); non-trivial = string longer than 1 byte or a fault plan present.",
        assumptions: &[
            "the harness's own limb arithmetic (models/bigint.rs, unit-tested against known vectors) is the definition of (S)LEB128 value and minimal form",
            "candid::Nat/Int are compared through their decimal Display and built through Nat::parse/Int::parse (num-bigint decimal conversion is trusted)",
            "in-message decoders (Decode! at Nat/Int/u128/i128/Vec/BTreeMap/Option, IDLArgs::from_bytes) are reached by workload only: no schedule or fault can be injected below a byte slice",
        ],
        real_components: &["candid::Nat::{encode,decode}", "candid::Int::{encode,decode}", "candid::types::leb128::{encode_nat,encode_int,decode_nat,decode_int}", "candid::de (in-message paths)", "num-bigint", "leb128 crate"],
        stub_components: &["io::Read -> SimReader (short read, EINTR, EOF/error at offset)", "io::Write -> SimWriter (short write, EINTR, write-zero/error at offset)"],
    },
    PropertyMeta {
        id: "C20",
        level: "fault_enumeration",
        engine: "entropy-sim",
        rule: "a run = one generated environment (0-5 definitions, recursive, with planted hard cases: uninhabited `record {L}`, variant whose first case is recursive, rose tree; planted depth families T/L/W/VT with a known nesting bound, VT recursing through a vector of a named type; `empty` and `reserved` allowed), 1-3 requested types, one generator configuration drawn from a swarm (depth -1..30 — 30 only where the recursion cannot branch, 12 otherwise —, size -5..1000, width 0..40, ranges incl. inverted and out-of-type ones, every text kind incl. an unknown one, per-path overrides by definition name, constructor, primitive type name or field label, incl. configured `value` lists that do or do not fit and the same literal configured for several number types at once), and one entropy buffer of 0-256 bytes (random, all-00, all-FF, period 3); the fault 'entropy runs dry after k bytes' is enumerated over every prefix k = 0..n. Every returned argument list is judged by the harness's own typing judgement, annotate_type and to_bytes_with_types. distinct = distinct (requested type, size of the generated value). non-trivial = the generator returned values at least once.",
        assumptions: &[
            "termination is judged by 'returns' (wall-clock watchdog as backstop), not by a size formula",
            "a configuration TOML the config parser rejects is counted, not judged",
            "the environment / configuration space is sampled; per buffer the truncation points are swept completely",
        ],
        real_components: &["candid_parser::random (any, RandState)", "candid_parser::configs", "arbitrary::Unstructured", "IDLValue::annotate_type, IDLArgs::to_bytes_with_types", "fake / rand for text kinds"],
        stub_components: &["entropy source: harness buffer with truncation at every prefix, stuck-at and periodic contents"],
    },
];

pub fn meta(prop: &str) -> Option<&'static PropertyMeta> {
    META.iter().find(|m| m.id == prop)
}

fn parse<T: serde::de::DeserializeOwned>(sc: &serde_json::Value) -> Result<T, String> {
    serde_json::from_value(sc.clone()).map_err(|e| format!("bad scenario: {e}"))
}
fn js<T: serde::Serialize>(x: T) -> serde_json::Value {
    serde_json::to_value(x).unwrap()
}

macro_rules! dispatch {
    ($prop:expr, $m:ident => $body:expr, $default:expr) => {
        match $prop {
            "C01" | "C03" => {
                use memo as $m;
                $body
            }
            "C04" => {
                use wire04 as $m;
                $body
            }
            "C05" => {
                use gamma as $m;
                $body
            }
            "C06" => {
                use wire06 as $m;
                $body
            }
            "C07" => {
                use wire07 as $m;
                $body
            }
            "C09" => {
                use stream as $m;
                $body
            }
            "C20" => {
                use entropy as $m;
                $body
            }
            _ => $default,
        }
    };
}

pub fn runs_for(prop: &str, tier: Tier) -> u64 {
    dispatch!(prop, m => m::runs_for(prop, tier), 0)
}

pub fn generate(prop: &str, tier: Tier, seed: u64, run: u64) -> serde_json::Value {
    dispatch!(prop, m => js(m::generate(prop, tier, seed, run)), serde_json::Value::Null)
}

pub fn execute(prop: &str, sc: &serde_json::Value, ctx: &mut Ctx) -> Result<(), String> {
    dispatch!(prop, m => m::execute(&parse(sc)?, ctx), Err(format!("no engine for {prop}")))
}

pub fn shrink(prop: &str, sc: &serde_json::Value) -> Vec<serde_json::Value> {
    dispatch!(prop, m => parse::<m::Sc>(sc).map(|s| m::shrink(&s).into_iter().map(js).collect()).unwrap_or_default(), vec![])
}

pub fn size(prop: &str, sc: &serde_json::Value) -> usize {
    dispatch!(prop, m => parse::<m::Sc>(sc).map(|s| m::size(&s)).unwrap_or(0), 0)
}

/// Invariants whose evaluation may kill the process must be minimised in a child.
pub fn crash_class(invariant: &str) -> bool {
    invariant == "process-death" || invariant == "run-terminates" || invariant.starts_with("crash-")
}

pub fn extra_evidence(prop: &str, tier: Tier, stats: &Stats) -> serde_json::Value {
    match prop {
        "C09" => {
            let l1 = stats.exhaustive_parts.get("len1").copied().unwrap_or(0);
            let l2 = stats.exhaustive_parts.get("len2").copied().unwrap_or(0);
            let l3 = stats.exhaustive_parts.get("len3").copied().unwrap_or(0);
            serde_json::json!({
                "exhaustive": l1 == 256 && l2 == 65536 && (tier == Tier::Quick || l3 == 16777216),
                "exhaustive_note": format!("all {l1} 1-byte and {l2} 2-byte strings; {l3} of 16777216 3-byte strings; x4 standalone codecs each"),
                "workload_only_components": ["in-message decoders (no seam below a byte slice)"],
            })
        }
        "C05" => {
            let envs = stats.exhaustive_parts.get("small_envs").copied().unwrap_or(0);
            serde_json::json!({
                "exhaustive": false,
                "exhaustive_note": format!("{envs} of {} small environments had all two-query histories enumerated{}", gamma::small_env_count(), if tier == Tier::Thorough { " (thorough: every small environment)" } else { " (quick: seeded sample)" }),
                "schedule_reached": "order of queries, which memo they share, memo retirement after failed queries",
                "workload_only": "shapes of environments and query pairs",
            })
        }
        "C20" => {
            let bufs = stats.exhaustive_parts.get("buffers_with_every_prefix_run").copied().unwrap_or(0);
            serde_json::json!({
                "exhaustive": false,
                "exhaustive_note": format!("{bufs} entropy buffers had every prefix 0..n run; the (environment, types, configuration) space is sampled"),
            })
        }
        "C07" => {
            let full = stats.exhaustive_parts.get("messages_with_every_abort_point_enumerated").copied().unwrap_or(0);
            let samp = stats.exhaustive_parts.get("messages_with_sampled_abort_points").copied().unwrap_or(0);
            serde_json::json!({
                "exhaustive": false,
                "exhaustive_note": format!("per message the abort-point space was swept completely for {full} messages and sampled for {samp}; the message space itself is sampled"),
                "model_factor_limit": wire07::K_MODEL,
            })
        }
        _ => serde_json::json!({}),
    }
}
