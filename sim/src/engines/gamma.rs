//! Engine B `gamma-sim` (C05): histories of subtype / equality / compatibility
//! queries over caller-held memos, judged by the GFP oracle of models/gfp.rs.

use crate::kernel::guard::{guard, on_thread, panic_key, Guarded};
use crate::kernel::report::{Ctx, Tier};
use crate::kernel::rng::{fnv1a, mix, Rng};
use crate::models::conv::{to_env, to_type};
use crate::models::gen::*;
use crate::models::gfp;
use crate::models::stype::*;
use candid::types::subtype::{self, Gamma, OptReport};
use candid::types::TypeEnv;
use candid_parser::utils::{service_compatibility_report, service_compatible, service_equal, CandidSource};
use serde::{Deserialize, Serialize};
use std::collections::BTreeMap;

#[derive(Serialize, Deserialize, Clone, Debug, PartialEq, Eq, Copy)]
pub enum Entry {
    /// subtype() — OptReport::Warning, prints to stderr
    Subtype,
    /// subtype_with_config(Silence)
    Silence,
    /// subtype_check_all()
    CheckAll,
    /// equal()
    Equal,
}

#[derive(Serialize, Deserialize, Clone, Debug, PartialEq)]
pub enum Op {
    /// one query on memo `g` (memos for `Equal` are separate from the subtype memos)
    Q { g: usize, entry: Entry, a: SType, b: SType },
    /// query between the Candid types of two Rust types (recursive ones are tied with knots
    /// resolved through the thread-local type memo, not with names)
    Native { a: String, b: String, entry: Entry },
    /// text-level: is `new` an upgrade of `old`? Both programs are printed by the
    /// harness printer in a seeded presentation.
    Text { new_env: SEnv, new_svc: SType, old_env: SEnv, old_svc: SType, pres: u64 },
}

#[derive(Serialize, Deserialize, Clone, Debug, PartialEq)]
pub struct Sc {
    pub stack_kib: usize,
    pub env: SEnv,
    /// consistent renaming of definitions applied before anything reaches the crate
    pub rename: Vec<(String, String)>,
    pub ops: Vec<Op>,
    /// Some(i): additionally enumerate the i-th small environment exhaustively
    pub exhaust: Option<u32>,
}

pub fn runs_for(_prop: &str, tier: Tier) -> u64 {
    match tier {
        Tier::Quick => 16384,
        Tier::Thorough => 40960,
    }
}

// ---------------------------------------------------------------- small environments, enumerated

fn small_atoms() -> Vec<SType> {
    vec![SType::Prim(Prim::Nat), SType::Prim(Prim::Int), SType::name("T0"), SType::name("T1")]
}
fn small_bodies() -> Vec<SType> {
    let at = small_atoms();
    let mut out = vec![SType::record(vec![])];
    for a in &at {
        out.push(SType::opt(a.clone()));
        out.push(SType::vec(a.clone()));
        out.push(SType::record(vec![(SLabel::Id(0), a.clone())]));
        out.push(SType::variant(vec![(SLabel::Id(0), a.clone())]));
        for b in &at {
            out.push(SType::record(vec![(SLabel::Id(0), a.clone()), (SLabel::Id(1), b.clone())]));
            out.push(SType::variant(vec![(SLabel::Id(0), a.clone()), (SLabel::Id(1), b.clone())]));
        }
    }
    out
}
pub fn small_env_count() -> u32 {
    let n = small_bodies().len() as u32;
    n * n
}
fn small_env(i: u32) -> SEnv {
    let b = small_bodies();
    let n = b.len() as u32;
    let mut env = SEnv::new();
    env.0.insert("T0".into(), b[(i / n) as usize].clone());
    env.0.insert("T1".into(), b[(i % n) as usize].clone());
    env
}
fn small_queries() -> Vec<SType> {
    vec![SType::name("T0"), SType::name("T1"), SType::Prim(Prim::Nat), SType::opt(SType::name("T0")), SType::opt(SType::name("T1")), SType::vec(SType::name("T1"))]
}

// ---------------------------------------------------------------- generation

/// env ∪ twin(env): every definition T gets a twin Tx with the same body over
/// twins; then a few mutations are applied to twins. Pairs (T, Tx) are then
/// "almost equal" recursive types.
fn twin_env(rng: &mut Rng, env: &SEnv, prims: &[Prim]) -> SEnv {
    let mut out = env.clone();
    let tw = rename_env(env, &|n| format!("{n}x"));
    let mut tw = tw;
    let names: Vec<String> = tw.0.keys().cloned().collect();
    if !names.is_empty() {
        let muts = rng.range(1, 3);
        for _ in 0..muts {
            let n = rng.pick(&names).clone();
            let body = tw.0[&n].clone();
            let m = mutate(rng, &body, prims);
            // keep well-formedness: bodies stay constructors (no name-only cycles), functions stay functions
            let ok = match (&body, &m) {
                (SType::Func { .. }, SType::Func { .. }) => true,
                (SType::Func { .. }, _) => false,
                (SType::Service(_), SType::Service(_)) => true,
                (SType::Service(_), _) => false,
                (_, SType::Name(_)) => false,
                _ => true,
            };
            if ok {
                tw.0.insert(n, m);
            }
        }
    }
    for (k, v) in tw.0 {
        out.0.insert(k, v);
    }
    out
}

fn query_pool(rng: &mut Rng, env: &SEnv, k: &TyKnobs) -> Vec<SType> {
    let mut pool = Vec::new();
    for (n, body) in &env.0 {
        pool.push(SType::Name(n.clone()));
        pool.push(SType::opt(SType::Name(n.clone())));
        let mut st = Vec::new();
        subterms(body, &mut st);
        for s in st.into_iter().take(6) {
            pool.push(s);
        }
    }
    for _ in 0..3 {
        pool.push(gen_data_type(rng, k, env));
    }
    if pool.is_empty() {
        pool.push(SType::Prim(Prim::Nat));
    }
    pool
}

fn is_service_like(env: &SEnv, t: &SType) -> bool {
    matches!(env.unfold(t), SType::Service(_))
}

pub fn generate(_prop: &str, tier: Tier, seed: u64, run: u64) -> Sc {
    let mut rng = Rng::new(mix(seed, &["C05", "gamma"], run));
    let mut knobs = rng.split("knobs");
    let mut wl = rng.split("workload");
    let mut sched = rng.split("schedule");
    let stack_kib = *knobs.pick(&[1024usize, 2048, 8192]);
    // enumerated segment
    let exhaust_runs: u64 = match tier {
        Tier::Thorough => small_env_count() as u64,
        Tier::Quick => 256,
    };
    if run < exhaust_runs {
        let i = if tier == Tier::Thorough { run as u32 } else { wl.below(small_env_count() as u64) as u32 };
        return Sc { stack_kib, env: SEnv::new(), rename: vec![], ops: vec![], exhaust: Some(i) };
    }
    let mut k = TyKnobs::draw(&mut knobs);
    k.defs = knobs.range(1, if tier == Tier::Thorough { 8 } else { 6 }) as usize;
    if k.rec_pct == 0 {
        k.rec_pct = 25;
    }
    let base = gen_env(&mut wl, &k);
    let env = twin_env(&mut wl, &base, &k.prims);
    // consistent renaming of definitions (presentation)
    let rename: Vec<(String, String)> = if knobs.chance(1, 2) {
        let mut names: Vec<String> = env.0.keys().cloned().collect();
        let mut targets: Vec<String> = (0..names.len()).map(|i| format!("{}{}", knobs.pick(&["Z", "A", "t_", "Node", "m"]), i * 7 + 3)).collect();
        knobs.shuffle(&mut targets);
        names.drain(..).zip(targets).collect()
    } else {
        vec![]
    };
    let pool = query_pool(&mut wl, &env, &k);
    let ngam = knobs.range(1, 3) as usize;
    let nops = sched.range(3, if tier == Tier::Thorough { 32 } else { 14 }) as usize;
    let twins: Vec<String> = base.0.keys().cloned().collect();
    let mut ops = Vec::new();
    for _ in 0..nops {
        let g = sched.usize(ngam);
        let entry = match sched.below(16) {
            0 => Entry::Subtype,
            1..=3 => Entry::CheckAll,
            4..=6 => Entry::Equal,
            _ => Entry::Silence,
        };
        let (a, b) = match wl.below(10) {
            // planted: a type against its (mutated) twin, directly, under opt, under vec, in a function
            0..=4 if !twins.is_empty() => {
                let n = wl.pick(&twins).clone();
                let (x, y) = (SType::Name(n.clone()), SType::Name(format!("{n}x")));
                let (x, y) = if wl.chance(1, 2) { (x, y) } else { (y, x) };
                match wl.below(6) {
                    0 => (SType::opt(x), SType::opt(y)),
                    1 => (SType::vec(x), SType::vec(y)),
                    2 => (SType::Func { args: vec![y.clone()], rets: vec![x.clone()], mode: Mode::Update }, SType::Func { args: vec![x], rets: vec![y], mode: Mode::Update }),
                    3 => (SType::record(vec![(SLabel::Id(0), x.clone()), (SLabel::Id(1), SType::opt(x))]), SType::record(vec![(SLabel::Id(0), y.clone()), (SLabel::Id(1), SType::opt(y))])),
                    _ => (x, y),
                }
            }
            5 => {
                let t = wl.pick(&pool).clone();
                (t.clone(), t)
            }
            6 if env.0.values().any(|t| matches!(t, SType::Record(fs) if !fs.is_empty())) => {
                // a record against itself minus one field: fine exactly when the dropped field is
                // optional, possibly only through a named alias
                let recs: Vec<&String> = env.0.iter().filter(|(_, t)| matches!(t, SType::Record(fs) if !fs.is_empty())).map(|(n, _)| n).collect();
                let n = (*wl.pick(&recs)).clone();
                if let Some(SType::Record(fs)) = env.0.get(&n) {
                    let mut f2 = fs.clone();
                    f2.remove(wl.usize(fs.len()));
                    (SType::Record(f2), SType::Name(n))
                } else {
                    (SType::Name(n.clone()), SType::Name(n))
                }
            }
            6 | 7 => {
                let t = wl.pick(&pool).clone();
                let m = mutate(&mut wl, &t, &k.prims);
                if wl.chance(1, 2) {
                    (t, m)
                } else {
                    (m, t)
                }
            }
            8 => {
                // planted: the axioms of the relation (and their converses), under a context
                let t = wl.pick(&pool).clone();
                let (x, y) = match wl.below(7) {
                    0 => (SType::Prim(Prim::Nat), SType::Prim(Prim::Int)),
                    1 | 2 => (g_service(&mut wl, &k, &base), SType::Prim(Prim::Principal)),
                    3 => (t, SType::Prim(Prim::Reserved)),
                    4 => (SType::Prim(Prim::Empty), t),
                    5 => (SType::Prim(Prim::Null), SType::opt(t)),
                    _ => (SType::Func { args: vec![], rets: vec![], mode: Mode::Update }, SType::Prim(Prim::Principal)),
                };
                let (x, y) = if wl.chance(1, 4) { (y, x) } else { (x, y) };
                match wl.below(6) {
                    0 => (SType::vec(x), SType::vec(y)),
                    1 => (SType::record(vec![(SLabel::Id(3), x)]), SType::record(vec![(SLabel::Id(3), y)])),
                    2 => (SType::variant(vec![(SLabel::Id(3), x)]), SType::variant(vec![(SLabel::Id(3), y), (SLabel::Id(9), SType::Prim(Prim::Null))])),
                    3 => (SType::Func { args: vec![], rets: vec![x], mode: Mode::Query }, SType::Func { args: vec![], rets: vec![y], mode: Mode::Query }),
                    _ => (x, y),
                }
            }
            _ => (wl.pick(&pool).clone(), wl.pick(&pool).clone()),
        };
        ops.push(Op::Q { g, entry, a, b });
    }
    // queries between Rust-derived types (knots instead of names)
    if sched.chance(1, 3) {
        const NATIVE: [&str; 22] = [
            "NatTree", "IntTree", "Vec<NatTree>", "Option<IntTree>", "OldList", "NewList", "List", "Rose", "Expr", "MutA", "MutB", "Vec<List>", "Option<MutA>", "RecV1", "RecV2", "RecV3", "Option<VarV1>", "Option<VarV2>", "FuncRef", "FuncRefV2", "ServRef",
            "ServRefV2",
        ];
        for _ in 0..sched.range(1, 3) {
            let a = wl.pick(&NATIVE).to_string();
            let b = if wl.chance(1, 5) { a.clone() } else { wl.pick(&NATIVE).to_string() };
            let entry = match sched.below(4) {
                0 => Entry::CheckAll,
                1 => Entry::Equal,
                _ => Entry::Silence,
            };
            ops.push(Op::Native { a, b, entry });
        }
    }
    // text-level upgrade checks
    if sched.chance(1, 3) {
        let ntext = sched.range(1, 2);
        for _ in 0..ntext {
            let mut kk = k.clone();
            kk.refs = true;
            let svc = g_service(&mut wl, &kk, &base);
            // old version: a few mutations on definitions and on the service itself
            let mut old_env = base.clone();
            let names: Vec<String> = old_env.0.keys().cloned().collect();
            for _ in 0..wl.below(3) {
                if let Some(n) = names.get(wl.usize(names.len().max(1))) {
                    let body = old_env.0[n].clone();
                    let m = mutate(&mut wl, &body, &k.prims);
                    let ok = match (&body, &m) {
                        (SType::Func { .. }, SType::Func { .. }) | (SType::Service(_), SType::Service(_)) => true,
                        (SType::Func { .. }, _) | (SType::Service(_), _) | (_, SType::Name(_)) => false,
                        _ => true,
                    };
                    if ok {
                        old_env.0.insert(n.clone(), m);
                    }
                }
            }
            let old_svc = if wl.chance(1, 2) {
                let m = mutate(&mut wl, &svc, &k.prims);
                if is_service_like(&old_env, &m) && well_formed_service(&old_env, &m) {
                    m
                } else {
                    svc.clone()
                }
            } else {
                svc.clone()
            };
            // some definitions get a name that exists in the old program only (the names that stay
            // clash with the new program's and may have different bodies there)
            let (old_env, old_svc) = if wl.chance(1, 2) && !old_env.0.is_empty() {
                let names: Vec<String> = old_env.0.keys().cloned().collect();
                let renamed: Vec<String> = names.iter().filter(|_| wl.chance(1, 2)).cloned().collect();
                let f = |n: &str| if renamed.iter().any(|r| r == n) { format!("Old{n}") } else { n.to_string() };
                (rename_env(&old_env, &f), rename_type(&old_svc, &f))
            } else {
                (old_env, old_svc)
            };
            ops.push(Op::Text { new_env: base.clone(), new_svc: svc, old_env, old_svc, pres: wl.next_u64() });
        }
    }
    Sc { stack_kib, env, rename, ops, exhaust: None }
}

fn g_service(rng: &mut Rng, k: &TyKnobs, env: &SEnv) -> SType {
    // a service whose methods use data types over the environment
    let n = rng.range(1, 4) as usize;
    let mut ms = Vec::new();
    for i in 0..n {
        let mode = match rng.below(6) {
            0 => Mode::Query,
            1 => Mode::Oneway,
            _ => Mode::Update,
        };
        let na = rng.below(3) as usize;
        let nr = if mode == Mode::Oneway { 0 } else { rng.below(3) as usize };
        let f = SType::Func { args: (0..na).map(|_| gen_data_type(rng, k, env)).collect(), rets: (0..nr).map(|_| gen_data_type(rng, k, env)).collect(), mode };
        ms.push((format!("meth{i}"), f));
    }
    SType::service(ms)
}

fn well_formed_service(env: &SEnv, t: &SType) -> bool {
    match env.unfold(t) {
        SType::Service(ms) => ms.iter().all(|(_, f)| match env.unfold(f) {
            SType::Func { rets, mode, .. } => !(*mode == Mode::Oneway && !rets.is_empty()),
            _ => false,
        }),
        _ => false,
    }
}

// ---------------------------------------------------------------- execution

#[derive(Default)]
struct Local {
    events: Vec<String>,
    viol: Vec<(String, String, String)>,
    probes: BTreeMap<String, u64>,
    ops: BTreeMap<String, u64>,
    states: Vec<u64>,
    faults: BTreeMap<String, u64>,
    inconclusive: u64,
    nontrivial: bool,
    exhaustive_queries: u64,
}
impl Local {
    fn probe(&mut self, k: &str) {
        *self.probes.entry(k.to_string()).or_insert(0) += 1;
    }
    fn op(&mut self, k: &str) {
        *self.ops.entry(k.to_string()).or_insert(0) += 1;
    }
    fn fault(&mut self, k: &str) {
        *self.faults.entry(k.to_string()).or_insert(0) += 1;
    }
}

/// canonical fingerprint of a memo (order independent)
fn gamma_fp(g: &Gamma) -> u64 {
    let mut hs: Vec<u64> = g.iter().map(|(a, b)| fnv1a(format!("{a:?}|{b:?}").as_bytes())).collect();
    hs.sort_unstable();
    let mut h = 0xcbf2_9ce4_8422_2325u64;
    for x in hs {
        h = (h ^ x).wrapping_mul(0x0000_0100_0000_01B3);
    }
    h
}

/// One real call. Ok(true) = related, Ok(false) = not related, Err = guard tripped / panic.
fn real_query(entry: Entry, g: &mut Gamma, env: &TypeEnv, a: &candid::types::Type, b: &candid::types::Type) -> Result<bool, String> {
    let r = guard(|| match entry {
        Entry::Subtype => subtype::subtype(g, env, a, b).map(|_| true).or_else(classify),
        Entry::Silence => subtype::subtype_with_config(OptReport::Silence, g, env, a, b).map(|_| true).or_else(classify),
        Entry::CheckAll => {
            let errs = subtype::subtype_check_all(g, env, a, b);
            if errs.iter().any(|e| e.message.contains("recursion limit")) {
                Err("recursion-limit".to_string())
            } else {
                Ok(errs.is_empty())
            }
        }
        Entry::Equal => subtype::equal(g, env, a, b).map(|_| true).or_else(classify),
    });
    match r {
        Guarded::Done(x) => x,
        Guarded::Panicked(m) => Err(format!("panic:{m}")),
    }
}
fn classify(e: candid::Error) -> Result<bool, String> {
    let s = format!("{e:?}");
    if s.contains("Recursion limit") || s.contains("Recursion depth") {
        Err("recursion-limit".into())
    } else {
        Ok(false)
    }
}

struct Realised {
    senv: SEnv,
    tenv: TypeEnv,
    map: BTreeMap<String, String>,
}
fn realise(sc_env: &SEnv, rename: &[(String, String)]) -> Realised {
    let map: BTreeMap<String, String> = rename.iter().cloned().collect();
    let m2 = map.clone();
    let f = move |n: &str| m2.get(n).cloned().unwrap_or_else(|| n.to_string());
    let senv = rename_env(sc_env, &f);
    let tenv = to_env(&senv);
    Realised { senv, tenv, map }
}

#[allow(clippy::too_many_arguments)]
fn do_query(l: &mut Local, r: &Realised, subs: &mut Vec<Gamma>, eqs: &mut Vec<Gamma>, g: usize, entry: Entry, a: &SType, b: &SType, yes_pairs: &mut Vec<(SType, SType)>, log: bool) {
    let f = |n: &str| r.map.get(n).cloned().unwrap_or_else(|| n.to_string());
    let (a, b) = (rename_type(a, &f), rename_type(b, &f));
    if !closed(&r.senv, &a) || !closed(&r.senv, &b) || !env_closed(&r.senv) {
        // not a well-formed scenario (can only come from a hand-edited replay file)
        l.probe("skipped_unbound_name");
        return;
    }
    let (ta, tb) = (to_type(&a), to_type(&b));
    let is_eq = entry == Entry::Equal;
    let slots = if is_eq { &mut *eqs } else { &mut *subs };
    while slots.len() <= g {
        slots.push(Gamma::default());
    }
    let oracle = if is_eq { gfp::equal(&r.senv, &a, &b) } else { gfp::subtype(&r.senv, &a, &b) };
    let before = gamma_fp(&slots[g]);
    let had_history = !slots[g].is_empty();
    l.states.push(fnv1a(format!("{before:x}|{entry:?}|{}|{}", show_type(&a), show_type(&b)).as_bytes()));
    l.op(&format!("query_{entry:?}"));
    let ans = real_query(entry, &mut slots[g], &r.tenv, &ta, &tb);
    let key = format!("{entry:?}:{} <: {} | env {}", show_type(&a), show_type(&b), show_prog(&r.senv, &r.senv.0.keys().cloned().collect::<Vec<_>>(), None).replace('\n', " "));
    if log {
        l.events.push(format!("q g={g} hist={had_history} {entry:?} {} ? {} -> {:?} oracle={oracle}", show_type(&a), show_type(&b), ans));
    }
    match ans {
        Err(e) if e.starts_with("panic:") => {
            l.viol.push(("query-no-panic".into(), format!("{key}@{}", panic_key(&e)), format!("{entry:?} panicked on {} vs {}: {e}", show_type(&a), show_type(&b))));
        }
        Err(_) => {
            l.inconclusive += 1;
            l.probe("recursion_guard_tripped");
        }
        Ok(real) => {
            if had_history {
                l.nontrivial = true;
                l.probe("query_on_memo_with_history");
            }
            if !oracle {
                l.probe("oracle_says_no");
            }
            if real != oracle {
                // same query on a fresh memo: is the history to blame?
                let mut fresh = Gamma::default();
                let again = real_query(entry, &mut fresh, &r.tenv, &ta, &tb);
                if again == Ok(oracle) {
                    l.viol.push((
                        "answer-independent-of-memo-history".into(),
                        key,
                        format!("{entry:?}: {} vs {} answered {real} on a memo with earlier successful queries, {oracle} on a fresh memo (= spec relation)", show_type(&a), show_type(&b)),
                    ));
                } else {
                    l.viol.push((
                        if is_eq { "equal-decides-structural-equality".into() } else { "answer-equals-spec-relation".into() },
                        key,
                        format!("{entry:?}: {} vs {} answered {real}, greatest fixed point of the spec rules says {oracle}", show_type(&a), show_type(&b)),
                    ));
                }
            } else if real && !is_eq {
                if yes_pairs.len() < 24 {
                    yes_pairs.push((a.clone(), b.clone()));
                }
            }
            if real && is_eq {
                // equality implies subtyping both ways (fresh memo)
                for (x, y, tx, ty) in [(&a, &b, &ta, &tb), (&b, &a, &tb, &ta)] {
                    let mut fresh = Gamma::default();
                    if real_query(Entry::Silence, &mut fresh, &r.tenv, tx, ty) == Ok(false) {
                        l.viol.push(("equal-implies-subtype".into(), format!("eq:{} {}", show_type(x), show_type(y)), format!("equal({}, {}) holds but subtype says no", show_type(x), show_type(y))));
                    }
                }
            }
            // the statement promises independence from *successful* earlier checks:
            // a memo that has seen a failed top-level query is retired
            if !real {
                slots[g] = Gamma::default();
                l.fault("memo_retired_after_failed_query");
            } else if gamma_fp(&slots[g]) != before {
                l.probe("memo_grew");
            }
        }
    }
}

fn exhaust_env(l: &mut Local, i: u32) {
    let env = small_env(i);
    let r = realise(&env, &[]);
    let qs = small_queries();
    let tq: Vec<candid::types::Type> = qs.iter().map(to_type).collect();
    // oracle table
    let n = qs.len();
    let mut orc = vec![false; n * n];
    for x in 0..n {
        for y in 0..n {
            orc[x * n + y] = gfp::subtype(&r.senv, &qs[x], &qs[y]);
        }
    }
    // every sequence of two queries on one memo; the second is judged (the first
    // too, on its fresh memo). A failed first query retires the memo.
    for x1 in 0..n {
        for y1 in 0..n {
            let mut g = Gamma::default();
            let first = real_query(Entry::Silence, &mut g, &r.tenv, &tq[x1], &tq[y1]);
            l.exhaustive_queries += 1;
            match first {
                Ok(a) => {
                    if a != orc[x1 * n + y1] {
                        l.viol.push((
                            "answer-equals-spec-relation".into(),
                            format!("small-env {i}: {} <: {}", show_type(&qs[x1]), show_type(&qs[y1])),
                            format!("small env #{i} [{}]: {} <: {} answered {a}, spec relation {}", show_prog(&env, &["T0".into(), "T1".into()], None).replace('\n', " "), show_type(&qs[x1]), show_type(&qs[y1]), orc[x1 * n + y1]),
                        ));
                    }
                    if !a {
                        continue;
                    }
                }
                Err(e) => {
                    if e.starts_with("panic:") {
                        l.viol.push(("query-no-panic".into(), format!("small-env {i}@{}", panic_key(&e)), format!("small env #{i}: panic {e}")));
                    }
                    continue;
                }
            }
            for x2 in 0..n {
                for y2 in 0..n {
                    let mut g2 = g.clone();
                    let second = real_query(Entry::Silence, &mut g2, &r.tenv, &tq[x2], &tq[y2]);
                    l.exhaustive_queries += 1;
                    if let Ok(a) = second {
                        if a != orc[x2 * n + y2] {
                            l.viol.push((
                                "answer-independent-of-memo-history".into(),
                                format!("small-env {i}: {} <: {} then {} <: {}", show_type(&qs[x1]), show_type(&qs[y1]), show_type(&qs[x2]), show_type(&qs[y2])),
                                format!(
                                    "small env #{i} [{}]: after the successful query {} <: {}, the query {} <: {} on the same memo answered {a}; spec relation {}",
                                    show_prog(&env, &["T0".into(), "T1".into()], None).replace('\n', " "),
                                    show_type(&qs[x1]),
                                    show_type(&qs[y1]),
                                    show_type(&qs[x2]),
                                    show_type(&qs[y2]),
                                    orc[x2 * n + y2]
                                ),
                            ));
                            if l.viol.len() > 8 {
                                return;
                            }
                        }
                    }
                }
            }
        }
    }
}

/// permute fields / methods of every record, variant and service for printing only
fn permute_for_print(t: &SType, rng: &mut Rng) -> SType {
    match t {
        SType::Prim(_) | SType::Name(_) => t.clone(),
        SType::Opt(x) => SType::opt(permute_for_print(x, rng)),
        SType::Vec(x) => SType::vec(permute_for_print(x, rng)),
        SType::Record(fs) => {
            let mut v: Vec<_> = fs.iter().map(|(l, x)| (l.clone(), permute_for_print(x, rng))).collect();
            rng.shuffle(&mut v);
            SType::Record(v)
        }
        SType::Variant(fs) => {
            let mut v: Vec<_> = fs.iter().map(|(l, x)| (l.clone(), permute_for_print(x, rng))).collect();
            rng.shuffle(&mut v);
            SType::Variant(v)
        }
        SType::Func { args, rets, mode } => SType::Func { args: args.iter().map(|x| permute_for_print(x, rng)).collect(), rets: rets.iter().map(|x| permute_for_print(x, rng)).collect(), mode: *mode },
        SType::Service(ms) => {
            let mut v: Vec<_> = ms.iter().map(|(n, x)| (n.clone(), permute_for_print(x, rng))).collect();
            rng.shuffle(&mut v);
            SType::Service(v)
        }
    }
}

fn print_presented(env: &SEnv, svc: &SType, rng: &mut Rng) -> String {
    let mut order: Vec<String> = env.0.keys().cloned().collect();
    rng.shuffle(&mut order);
    let penv = SEnv(env.0.iter().map(|(k, v)| (k.clone(), permute_for_print(v, rng))).collect());
    show_prog(&penv, &order, Some(&permute_for_print(svc, rng)))
}

fn do_text(l: &mut Local, new_env: &SEnv, new_svc: &SType, old_env: &SEnv, old_svc: &SType, pres: u64, log: bool) {
    let mut prng = Rng::new(pres);
    let new_txt = print_presented(new_env, new_svc, &mut prng);
    let old_txt = print_presented(old_env, old_svc, &mut prng);
    l.op("text_level_upgrade_check");
    // both programs must load, otherwise the harness printer and the parser disagree (not a C05 matter)
    let loads = guard(|| CandidSource::Text(&new_txt).load().is_ok() && CandidSource::Text(&old_txt).load().is_ok());
    match loads {
        Guarded::Done(true) => {}
        _ => {
            l.probe("text_program_did_not_load");
            l.inconclusive += 1;
            if log {
                l.events.push(format!("text: program did not load: {new_txt:?} / {old_txt:?}"));
            }
            return;
        }
    }
    // oracle on a combined environment: old names get a suffix
    let mut comb = new_env.clone();
    let olde = rename_env(old_env, &|n| format!("{n}_old"));
    for (k, v) in olde.0 {
        comb.0.insert(k, v);
    }
    let old_svc_r = rename_type(old_svc, &|n| format!("{n}_old"));
    let oracle_sub = gfp::subtype(&comb, new_svc, &old_svc_r);
    let oracle_eq = gfp::equal(&comb, new_svc, &old_svc_r);
    let key = format!("text:{}|{}", new_txt.replace('\n', " "), old_txt.replace('\n', " "));
    let compat = guard(|| service_compatible(CandidSource::Text(&new_txt), CandidSource::Text(&old_txt)));
    let report = guard(|| service_compatibility_report(CandidSource::Text(&new_txt), CandidSource::Text(&old_txt)));
    let equal = guard(|| service_equal(CandidSource::Text(&new_txt), CandidSource::Text(&old_txt)));
    if log {
        l.events.push(format!("text new=[{}] old=[{}] oracle_sub={oracle_sub} oracle_eq={oracle_eq}", new_txt.replace('\n', " "), old_txt.replace('\n', " ")));
    }
    l.states.push(fnv1a(key.as_bytes()));
    let rec = |e: &candid_parser::Error| format!("{e:?}").contains("Recursion limit");
    match (&compat, &report) {
        (Guarded::Done(c), Guarded::Done(Ok(errs))) => {
            if let Err(e) = c {
                if rec(e) {
                    l.inconclusive += 1;
                    return;
                }
            }
            let c = c.is_ok();
            if c != oracle_sub {
                l.viol.push(("upgrade-check-equals-spec-relation".into(), key.clone(), format!("service_compatible answered {c}, spec relation {oracle_sub}; new=[{new_txt}] old=[{old_txt}]")));
            }
            if errs.is_empty() != c {
                l.viol.push(("report-empty-iff-compatible".into(), key.clone(), format!("service_compatible={c} but report has {} entries; new=[{new_txt}] old=[{old_txt}]", errs.len())));
            }
        }
        (Guarded::Panicked(m), _) | (_, Guarded::Panicked(m)) => {
            l.viol.push(("query-no-panic".into(), format!("{key}@{}", panic_key(m)), format!("text-level upgrade check panicked: {m}; new=[{new_txt}] old=[{old_txt}]")));
        }
        _ => {
            l.probe("text_report_errored");
        }
    }
    match equal {
        Guarded::Done(r) => {
            let e = r.is_ok();
            if e != oracle_eq {
                l.viol.push(("equal-decides-structural-equality".into(), key, format!("service_equal answered {e}, structural equality {oracle_eq}; new=[{new_txt}] old=[{old_txt}]")));
            }
        }
        Guarded::Panicked(m) => l.viol.push(("query-no-panic".into(), format!("{key}@{}", panic_key(&m)), format!("service_equal panicked: {m}"))),
    }
}

fn do_native(l: &mut Local, a: &str, b: &str, entry: Entry, log: bool) {
    let (Some(da), Some(db)) = (crate::corpus::find(a), crate::corpus::find(b)) else {
        l.probe("skipped_unknown_corpus_type");
        return;
    };
    l.op("native_type_query");
    // harness-side types of both, in one environment (definition names are unique per Rust type)
    let mut env = SEnv::new();
    let sa = (da.sim_type)(&mut env);
    let sb = (db.sim_type)(&mut env);
    let oracle = if entry == Entry::Equal { gfp::equal(&env, &sa, &sb) } else { gfp::subtype(&env, &sa, &sb) };
    let tys = guard(|| ((da.ty)(), (db.ty)()));
    let (ta, tb) = match tys {
        Guarded::Done(x) => x,
        Guarded::Panicked(m) => {
            l.viol.push(("query-no-panic".into(), format!("ty:{a}/{b}@{}", panic_key(&m)), format!("deriving the types of {a} and {b} panicked: {m}")));
            return;
        }
    };
    let mut g = Gamma::default();
    let ans = real_query(entry, &mut g, &TypeEnv::new(), &ta, &tb);
    if log {
        l.events.push(format!("native {entry:?} {a} ? {b} -> {ans:?} oracle={oracle}"));
    }
    l.states.push(fnv1a(format!("native|{entry:?}|{a}|{b}").as_bytes()));
    match ans {
        Err(e) if e.starts_with("panic:") => l.viol.push(("query-no-panic".into(), format!("native:{a}/{b}@{}", panic_key(&e)), format!("{entry:?} on the types of {a} and {b} panicked: {e}"))),
        Err(_) => l.inconclusive += 1,
        Ok(real) => {
            l.nontrivial = true;
            if real != oracle {
                l.viol.push((
                    if entry == Entry::Equal { "equal-decides-structural-equality".into() } else { "answer-equals-spec-relation".into() },
                    format!("native:{entry:?}:{a} vs {b}"),
                    format!("{entry:?} on the Candid types of Rust types {a} and {b} (recursion tied with knots) answered {real}; the spec relation on {} vs {} says {oracle}", show_type(&sa), show_type(&sb)),
                ));
            }
        }
    }
}

fn run(sc: &Sc, log: bool) -> Local {
    let mut l = Local::default();
    for k in ["query_on_memo_with_history", "oracle_says_no", "memo_grew", "recursion_guard_tripped", "text_program_did_not_load", "text_report_errored", "transitivity_checked", "spec_relation_itself_not_transitive_here"] {
        l.probes.entry(k.to_string()).or_insert(0);
    }
    if let Some(i) = sc.exhaust {
        exhaust_env(&mut l, i);
        l.nontrivial = true;
        if log {
            l.events.push(format!("exhaust small env {i}: {} queries", l.exhaustive_queries));
        }
    }
    let r = realise(&sc.env, &sc.rename);
    let mut subs: Vec<Gamma> = Vec::new();
    let mut eqs: Vec<Gamma> = Vec::new();
    let mut yes: Vec<(SType, SType)> = Vec::new();
    for op in &sc.ops {
        match op {
            Op::Q { g, entry, a, b } => do_query(&mut l, &r, &mut subs, &mut eqs, *g, *entry, a, b, &mut yes, log),
            Op::Text { new_env, new_svc, old_env, old_svc, pres } => do_text(&mut l, new_env, new_svc, old_env, old_svc, *pres, log),
            Op::Native { a, b, entry } => do_native(&mut l, a, b, *entry, log),
        }
    }
    // transitivity on every triple the run happened to establish
    for (a, b) in yes.clone() {
        for (b2, c) in yes.clone() {
            if b == b2 && a != b && b != c {
                l.probe("transitivity_checked");
                let mut fresh = Gamma::default();
                if real_query(Entry::Silence, &mut fresh, &r.tenv, &to_type(&a), &to_type(&c)) == Ok(false) {
                    if !gfp::subtype(&r.senv, &a, &c) {
                        // The relation defined by the spec's rules is itself not transitive in this corner
                        // (record {f : text} <: record {} <: record {f : null}, but text </: null): the
                        // implementation agrees with the rules, which is what the property's main clause asks.
                        l.probe("spec_relation_itself_not_transitive_here");
                        continue;
                    }
                    l.viol.push((
                        "transitivity".into(),
                        format!("{} <: {} <: {}", show_type(&a), show_type(&b), show_type(&c)),
                        format!("{} <: {} and {} <: {} were accepted, {} <: {} is rejected", show_type(&a), show_type(&b), show_type(&b), show_type(&c), show_type(&a), show_type(&c)),
                    ));
                }
            }
        }
    }
    l
}

pub fn execute(sc: &Sc, ctx: &mut Ctx) -> Result<(), String> {
    let sc2 = sc.clone();
    let l = on_thread(sc.stack_kib * 1024, move || run(&sc2, true)).map_err(|e| format!("gamma engine panicked outside a guarded call: {e}"))?;
    for e in &l.events {
        ctx.ev(e);
    }
    for (k, n) in &l.probes {
        ctx.stats.probe_n(k, *n);
    }
    for (k, n) in &l.ops {
        *ctx.stats.ops.entry(k.clone()).or_insert(0) += n;
    }
    for (k, n) in &l.faults {
        ctx.stats.fault(k, *n);
    }
    for h in &l.states {
        ctx.stats.state(*h);
    }
    if l.exhaustive_queries > 0 {
        *ctx.stats.exhaustive_parts.entry("small_env_two_query_histories".into()).or_insert(0) += l.exhaustive_queries;
        *ctx.stats.exhaustive_parts.entry("small_envs".into()).or_insert(0) += 1;
        ctx.stats.distinct_overflow += l.exhaustive_queries;
    }
    ctx.stats.inconclusive += l.inconclusive;
    if l.nontrivial {
        ctx.stats.nontrivial_runs += 1;
    }
    if ctx.stats.samples.len() < 6 && !sc.ops.is_empty() {
        let ops: Vec<String> = sc
            .ops
            .iter()
            .take(6)
            .map(|o| match o {
                Op::Q { g, entry, a, b } => format!("memo{g}: {entry:?} {} <: {}", show_type(a), show_type(b)),
                Op::Text { .. } => "text-level upgrade check".to_string(),
                Op::Native { a, b, entry } => format!("native: {entry:?} {a} vs {b}"),
            })
            .collect();
        ctx.stats.sample(serde_json::json!({"env": show_prog(&sc.env, &sc.env.0.keys().cloned().collect::<Vec<_>>(), None), "rename": sc.rename, "history": ops}));
    }
    for (inv, key, detail) in l.viol {
        ctx.violate(&inv, &key, detail);
    }
    Ok(())
}

pub fn size(sc: &Sc) -> usize {
    let env_nodes: usize = sc.env.0.values().map(|t| t.nodes()).sum();
    let ops: usize = sc
        .ops
        .iter()
        .map(|o| match o {
            Op::Q { a, b, .. } => 4 + a.nodes() + b.nodes(),
            Op::Text { new_env, old_env, new_svc, old_svc, .. } => 20 + new_env.0.values().map(|t| t.nodes()).sum::<usize>() + old_env.0.values().map(|t| t.nodes()).sum::<usize>() + new_svc.nodes() + old_svc.nodes(),
            Op::Native { .. } => 6,
        })
        .sum();
    env_nodes + ops + sc.rename.len() + if sc.exhaust.is_some() { 100_000 } else { 0 }
}

fn names_used(t: &SType, out: &mut Vec<String>) {
    let mut st = Vec::new();
    subterms(t, &mut st);
    for s in st {
        if let SType::Name(n) = s {
            out.push(n);
        }
    }
}

pub fn shrink(sc: &Sc) -> Vec<Sc> {
    let mut out = Vec::new();
    if sc.exhaust.is_some() && !sc.ops.is_empty() {
        let mut s = sc.clone();
        s.ops.clear();
        out.push(s);
        let mut s = sc.clone();
        s.exhaust = None;
        out.push(s);
    }
    // drop ops (keep order): halves, then singles
    if sc.ops.len() > 1 {
        let h = sc.ops.len() / 2;
        for keep in [&sc.ops[h..], &sc.ops[..h]] {
            let mut s = sc.clone();
            s.ops = keep.to_vec();
            out.push(s);
        }
        for i in 0..sc.ops.len() {
            let mut s = sc.clone();
            s.ops.remove(i);
            out.push(s);
        }
    }
    // drop the renaming
    if !sc.rename.is_empty() {
        let mut s = sc.clone();
        s.rename.clear();
        out.push(s);
    }
    // drop definitions nobody refers to
    let mut used = Vec::new();
    for o in &sc.ops {
        if let Op::Q { a, b, .. } = o {
            names_used(a, &mut used);
            names_used(b, &mut used);
        }
    }
    // transitive closure
    let mut i = 0;
    while i < used.len() {
        if let Some(t) = sc.env.0.get(&used[i]) {
            let mut more = Vec::new();
            names_used(t, &mut more);
            for m in more {
                if !used.contains(&m) {
                    used.push(m);
                }
            }
        }
        i += 1;
    }
    if sc.env.0.keys().any(|k| !used.contains(k)) {
        let mut s = sc.clone();
        s.env.0.retain(|k, _| used.contains(k));
        s.rename.retain(|(k, _)| used.contains(k));
        out.push(s);
    }
    // simplify definitions: drop one field / method at a time
    for (n, t) in &sc.env.0 {
        match t {
            SType::Record(fs) | SType::Variant(fs) if !fs.is_empty() => {
                for i in 0..fs.len() {
                    if matches!(t, SType::Variant(_)) && fs.len() == 1 {
                        continue;
                    }
                    let mut f2 = fs.clone();
                    f2.remove(i);
                    let mut s = sc.clone();
                    s.env.0.insert(n.clone(), if matches!(t, SType::Record(_)) { SType::Record(f2) } else { SType::Variant(f2) });
                    out.push(s);
                }
            }
            _ => {}
        }
    }
    // set memo index to 0 / entry to Silence
    for (i, o) in sc.ops.iter().enumerate() {
        if let Op::Q { g, entry, a, b } = o {
            if *g != 0 {
                let mut s = sc.clone();
                s.ops[i] = Op::Q { g: 0, entry: *entry, a: a.clone(), b: b.clone() };
                out.push(s);
            }
        }
    }
    out
}
