//! Engine C `wire-sim`, upgrade mode (C04): one service lineage whose upgrades
//! are gated by the real checker, clients pinned to old versions, relays at
//! intermediate versions, calls and replies in flight across upgrades on a
//! discrete-event network. Plus native (sender, receiver) pairings of corpus types.

use crate::corpus;
use crate::kernel::guard::{guard, on_thread, panic_key, Guarded};
use crate::kernel::report::{Ctx, Tier};
use crate::kernel::rng::{fnv1a, mix, Rng};
use crate::models::conv::{from_idl, to_env, to_idl, to_type};
use crate::models::gen::*;
use crate::models::stype::*;
use candid::types::subtype::{self, Gamma, OptReport};
use candid::types::TypeEnv;
use candid::IDLArgs;
use candid_parser::utils::{service_compatible, CandidSource};
use serde::{Deserialize, Serialize};
use std::cmp::Reverse;
use std::collections::{BTreeMap, BinaryHeap};

#[derive(Serialize, Deserialize, Clone, Debug, PartialEq)]
pub enum Ev {
    /// try to deploy candidate version `candidate`; `text_gate`: decide through
    /// service_compatible on harness-printed .did text instead of the type-level checker
    Upgrade {
        at: u32,
        candidate: usize,
        text_gate: bool,
        /// definitions of the old program that are printed under a name existing only there (text gate)
        #[serde(default)]
        old_only: Vec<String>,
    },
    /// a client appears and pins itself to the version deployed at that moment
    Join { at: u32, client: usize },
    /// client calls a method; the call travels `net_delay`, the reply `reply_delay`;
    /// `relay`: an intermediary holding a version between the client's and the
    /// service's decodes and re-encodes the arguments; `dup`: the network duplicates the call
    Call { at: u32, client: usize, method_pick: u32, vseed: u64, budget: u32, net_delay: u32, reply_delay: u32, relay: Option<u32>, dup: bool },
    /// native pairing: value of Rust type `sender`, decoded at Rust type `receiver`
    NativePair { at: u32, sender: String, receiver: String, vseed: u64, size: usize },
}
impl Ev {
    fn at(&self) -> u32 {
        match self {
            Ev::Upgrade { at, .. } | Ev::Join { at, .. } | Ev::Call { at, .. } | Ev::NativePair { at, .. } => *at,
        }
    }
}

#[derive(Serialize, Deserialize, Clone, Debug, PartialEq)]
pub struct Sc {
    pub stack_kib: usize,
    pub env: SEnv,
    /// per candidate version: its own type definitions when they differ from `env`
    /// (a definition may change under the same name from one version to the next)
    #[serde(default)]
    pub venvs: Vec<Option<SEnv>>,
    /// candidate service types; versions[0] is deployed unconditionally
    pub versions: Vec<SType>,
    /// the kind of step that produced candidate i from its predecessor
    pub kinds: Vec<String>,
    pub events: Vec<Ev>,
}

pub fn runs_for(_prop: &str, tier: Tier) -> u64 {
    match tier {
        Tier::Quick => 16384,
        Tier::Thorough => 65536,
    }
}

// ---------------------------------------------------------------- generation

fn methods_of(t: &SType) -> Vec<(String, Vec<SType>, Vec<SType>, Mode)> {
    match t {
        SType::Service(ms) => ms
            .iter()
            .filter_map(|(n, f)| match f {
                SType::Func { args, rets, mode } => Some((n.clone(), args.clone(), rets.clone(), *mode)),
                _ => None,
            })
            .collect(),
        _ => vec![],
    }
}

fn gen_service(rng: &mut Rng, k: &TyKnobs, env: &SEnv) -> SType {
    let n = rng.range(1, 3) as usize;
    let mut ms = Vec::new();
    for i in 0..n {
        let mode = match rng.below(8) {
            0 => Mode::Query,
            1 => Mode::Oneway,
            _ => Mode::Update,
        };
        let na = rng.range(0, 2) as usize;
        let nr = if mode == Mode::Oneway { 0 } else { rng.range(0, 2) as usize };
        ms.push((format!("m{i}"), SType::Func { args: (0..na).map(|_| gen_data_type(rng, k, env)).collect(), rets: (0..nr).map(|_| gen_data_type(rng, k, env)).collect(), mode }));
    }
    SType::service(ms)
}

/// replace one Name leaf by (a copy of) its definition so that steps can reach inside
fn unfold_one(rng: &mut Rng, env: &SEnv, t: &SType) -> SType {
    let n = t.nodes();
    let mut k = rng.usize(n);
    let mut f = |x: &SType| -> SType {
        match x {
            SType::Name(n) => env.0.get(n).cloned().unwrap_or_else(|| x.clone()),
            other => other.clone(),
        }
    };
    rewrite_at(t, &mut k, &mut f)
}

fn next_candidate(rng: &mut Rng, env: &SEnv, cur: &SType, k: &TyKnobs) -> (SType, String) {
    let mut ms = methods_of(cur);
    if ms.is_empty() || rng.chance(1, 8) {
        // add a method
        let i = ms.len();
        let mut v: Vec<(String, SType)> = ms.iter().map(|(n, a, r, m)| (n.clone(), SType::Func { args: a.clone(), rets: r.clone(), mode: *m })).collect();
        v.push((format!("added{i}"), SType::Func { args: vec![gen_data_type(rng, k, env)], rets: vec![], mode: Mode::Update }));
        return (SType::service(v), "add-method".into());
    }
    let mi = rng.usize(ms.len());
    let kind: String;
    {
        let (_, args, rets, mode) = &mut ms[mi];
        match rng.below(12) {
            0 => {
                args.push(SType::opt(gen_data_type(rng, k, env)));
                kind = "append-optional-argument".into();
            }
            1 if *mode != Mode::Oneway => {
                rets.push(gen_data_type(rng, k, env));
                kind = "append-result".into();
            }
            2 | 3 => {
                // deliberately unrelated rewrite somewhere
                let on_args = rng.chance(1, 2);
                let v = if on_args { &mut *args } else { &mut *rets };
                if v.is_empty() {
                    kind = "none".into();
                } else {
                    let i = rng.usize(v.len());
                    v[i] = mutate(rng, &v[i], &k.prims);
                    kind = "unrelated-rewrite".into();
                }
            }
            _ => {
                let on_args = rng.chance(1, 2);
                let v = if on_args { &mut *args } else { &mut *rets };
                if v.is_empty() {
                    kind = "none".into();
                } else {
                    let i = rng.usize(v.len());
                    let base = if rng.chance(1, 3) { unfold_one(rng, env, &v[i]) } else { v[i].clone() };
                    // arguments generalise, results specialise
                    let (t2, kd) = upgrade_step(rng, env, &base, !on_args, &k.prims);
                    v[i] = t2;
                    kind = format!("{}:{kd}", if on_args { "arg" } else { "ret" });
                }
            }
        }
    }
    let v: Vec<(String, SType)> = ms.iter().map(|(n, a, r, m)| (n.clone(), SType::Func { args: a.clone(), rets: r.clone(), mode: *m })).collect();
    (SType::service(v), kind)
}

/// A definition D changes under its name from one version to the next (compatibly or not), the
/// service reaches it through a wrapper definition W, and the upgrade is decided on .did text in
/// which W (and/or D) carries a name that exists in the old program only.
fn planted_definition_change(knobs: &mut Rng, wl: &mut Rng, sched: &mut Rng, stack_kib: usize) -> Sc {
    let mut k = TyKnobs::draw(knobs);
    k.defs = 0;
    k.allow_empty = false;
    k.refs = false;
    k.max_depth = 1;
    let empty = SEnv::new();
    let l = |s: &str| SLabel::Named(s.to_string());
    let d0 = SType::record(vec![(l("id"), SType::Prim(Prim::Nat)), (l("name"), SType::Prim(Prim::Text)), (l("extra"), gen_data_type(wl, &k, &empty))]);
    let w = match wl.below(3) {
        0 => SType::record(vec![(l("items"), SType::vec(SType::name("D"))), (l("next"), SType::opt(SType::Prim(Prim::Nat)))]),
        1 => SType::opt(SType::name("D")),
        _ => SType::variant(vec![(l("one"), SType::name("D")), (l("none"), SType::Prim(Prim::Null))]),
    };
    let mut env = SEnv::new();
    env.0.insert("D".into(), d0.clone());
    env.0.insert("W".into(), w);
    let in_result = wl.chance(2, 3);
    let svc = SType::service(vec![(
        "get".into(),
        if in_result { SType::Func { args: vec![SType::Prim(Prim::Nat)], rets: vec![SType::name("W")], mode: Mode::Query } } else { SType::Func { args: vec![SType::name("W")], rets: vec![], mode: Mode::Update } },
    )]);
    // the new version's D: a compatible or an incompatible change, in either direction
    let d1 = match wl.below(5) {
        0 => SType::record(vec![(l("id"), SType::Prim(Prim::Nat))]),                                                        // fields dropped
        1 => SType::record(vec![(l("id"), SType::Prim(Prim::Int)), (l("name"), SType::Prim(Prim::Text)), (l("extra"), SType::Prim(Prim::Null))]), // nat -> int
        2 => mutate(wl, &d0, &k.prims),
        3 => upgrade_step(wl, &env, &d0, in_result, &k.prims).0,
        _ => SType::record(vec![(l("id"), SType::Prim(Prim::Text)), (l("name"), SType::Prim(Prim::Text))]),
    };
    let mut env1 = env.clone();
    env1.0.insert("D".into(), d1);
    let old_only: Vec<String> = match sched.below(4) {
        0 => vec!["W".into()],
        1 => vec!["D".into()],
        2 => vec!["W".into(), "D".into()],
        _ => vec![],
    };
    let mut events = vec![Ev::Join { at: 0, client: 0 }, Ev::Upgrade { at: 50, candidate: 1, text_gate: true, old_only }, Ev::Join { at: 60, client: 1 }];
    for i in 0..4u32 {
        events.push(Ev::Call { at: if i % 2 == 0 { 40 } else { 70 } + i, client: (i % 2) as usize, method_pick: 0, vseed: wl.next_u64(), budget: wl.range(2, 30) as u32, net_delay: if i % 2 == 0 { 30 } else { 3 }, reply_delay: 5, relay: None, dup: false });
    }
    events.sort_by_key(|e| e.at());
    Sc { stack_kib, env: env.clone(), venvs: vec![None, Some(env1)], versions: vec![svc.clone(), svc], kinds: vec!["initial".into(), "def:planted-change".into()], events }
}

const FAMILIES: [&str; 40] = [
    "RecV1", "RecV2", "RecV3", "RecV4", "VarV1", "VarV2", "Option<VarV1>", "Option<VarV2>", "Vec<RecV1>", "Vec<RecV2>", "Option<RecV3>", "FuncRef", "FuncRefV2", "ServRef", "ServRefV2", "(RecV1,VarV1)", "(RecV2,Option<VarV2>)",
    "BTreeMap<String,RecV1>", "BTreeMap<String,RecV2>", "Vec<Option<VarV1>>", "Vec<Option<VarV2>>", "(Nat)", "(Int)", "(Int,Option<String>)", "(Nat,String,u8)", "Option<(Int)>", "(Nat,Int)", "(Int,Nat)", "Nat", "Int", "Vec<Nat>",
    "Vec<Int>", "Option<Nat>", "Option<Int>", "Principal", "Reserved", "Vec<Option<Nat>>", "Vec<Option<Int>>", "BTreeMap<String,Nat>", "BTreeMap<String,Int>",
];

pub fn generate(_prop: &str, tier: Tier, seed: u64, run: u64) -> Sc {
    let rng = Rng::new(mix(seed, &["C04", "wire"], run));
    let mut knobs = rng.split("knobs");
    let mut wl = rng.split("workload");
    let mut net = rng.split("network");
    let mut sched = rng.split("schedule");
    let stack_kib = *knobs.pick(&[512usize, 1024, 8192]);
    // enumerated segment: the first runs pair every corpus type, as the sender, with every corpus
    // type as the receiver, 48 receivers per run (the gate rejects most pairs at once; every
    // accepted pair is then judged)
    let corp = corpus::corpus();
    const BLOCK: usize = 48;
    let blocks = corp.len().div_ceil(BLOCK);
    if (run as usize) < corp.len() * blocks {
        let sender = corp[run as usize / blocks].name.clone();
        let b = run as usize % blocks;
        let reps = if tier == Tier::Thorough { 3 } else { 1 };
        let mut events = Vec::new();
        for r in corp.iter().skip(b * BLOCK).take(BLOCK) {
            for _ in 0..reps {
                events.push(Ev::NativePair { at: 0, sender: sender.clone(), receiver: r.name.clone(), vseed: wl.next_u64(), size: wl.range(1, 8) as usize });
            }
        }
        return Sc { stack_kib: 8192, env: SEnv::new(), venvs: vec![], versions: vec![SType::Service(vec![])], kinds: vec!["initial".into()], events };
    }
    if knobs.chance(1, 8) {
        return planted_definition_change(&mut knobs, &mut wl, &mut sched, stack_kib);
    }
    let mut k = TyKnobs::draw(&mut knobs);
    k.defs = knobs.range(0, 4) as usize;
    k.allow_empty = false;
    k.max_depth = knobs.range(1, 3) as usize;
    let mut env = gen_env(&mut wl, &k);
    if wl.chance(1, 2) {
        // a definition that is optional only through its name: upgrade steps add fields of this type
        let body = match wl.below(4) {
            0 => SType::Prim(Prim::Null),
            1 => SType::Prim(Prim::Reserved),
            2 => SType::opt(SType::name("TOpt")), // recursive option
            _ => SType::opt(gen_data_type(&mut wl, &k, &env)),
        };
        env.0.insert("TOpt".into(), body);
    }
    let v0 = gen_service(&mut wl, &k, &env);
    let nver = knobs.range(1, if tier == Tier::Thorough { 9 } else { 6 }) as usize;
    let mut versions = vec![v0];
    let mut kinds = vec!["initial".to_string()];
    let mut venvs: Vec<Option<SEnv>> = vec![None];
    let mut cur_env = env.clone();
    for _ in 0..nver {
        if !cur_env.0.is_empty() && wl.chance(1, 4) {
            // the step changes a type definition; the service keeps referring to it by name
            let names: Vec<String> = cur_env.0.keys().cloned().collect();
            let n = wl.pick(&names).clone();
            let body = cur_env.0[&n].clone();
            let down = wl.chance(1, 2);
            let (b2, kd) = if wl.chance(1, 4) { (mutate(&mut wl, &body, &k.prims), "unrelated-rewrite") } else { upgrade_step(&mut wl, &cur_env, &body, down, &k.prims) };
            let ok = match (&body, &b2) {
                (SType::Func { .. }, SType::Func { .. }) | (SType::Service(_), SType::Service(_)) => true,
                (SType::Func { .. }, _) | (SType::Service(_), _) | (_, SType::Name(_)) | (_, SType::Func { .. }) | (_, SType::Service(_)) => false,
                _ => true,
            };
            if ok && b2 != body {
                cur_env.0.insert(n, b2);
                versions.push(versions.last().unwrap().clone());
                kinds.push(format!("def:{kd}"));
                venvs.push(Some(cur_env.clone()));
                continue;
            }
        }
        let (c, kd) = next_candidate(&mut wl, &cur_env, versions.last().unwrap(), &k);
        versions.push(c);
        kinds.push(kd);
        venvs.push(if cur_env != env { Some(cur_env.clone()) } else { None });
    }
    // timeline: upgrades at seeded times, clients joining in between, calls with delays that straddle upgrades
    let horizon = 100 * (nver as u32 + 1);
    let mut events = Vec::new();
    for c in 1..versions.len() {
        let old_only: Vec<String> = env.0.keys().filter(|_| sched.chance(1, 3)).cloned().collect();
        events.push(Ev::Upgrade { at: sched.range(1, horizon as u64) as u32, candidate: c, text_gate: sched.chance(1, 4), old_only });
    }
    // keep candidate order = time order (a candidate is derived from its predecessor)
    let mut times: Vec<u32> = events.iter().map(|e| e.at()).collect();
    times.sort_unstable();
    for (e, t) in events.iter_mut().zip(times) {
        if let Ev::Upgrade { at, .. } = e {
            *at = t;
        }
    }
    let nclients = knobs.range(1, 4) as usize;
    for c in 0..nclients {
        events.push(Ev::Join { at: if c == 0 { 0 } else { sched.range(0, horizon as u64 / 2) as u32 }, client: c });
    }
    let ncalls = knobs.range(2, if tier == Tier::Thorough { 24 } else { 10 });
    for _ in 0..ncalls {
        let long = net.chance(1, 2);
        events.push(Ev::Call {
            at: sched.range(1, horizon as u64) as u32,
            client: sched.usize(nclients),
            method_pick: wl.next_u64() as u32,
            vseed: wl.next_u64(),
            budget: wl.range(1, 40) as u32,
            net_delay: if long { net.range(50, 400) as u32 } else { net.range(1, 20) as u32 },
            reply_delay: if net.chance(1, 2) { net.range(50, 400) as u32 } else { net.range(1, 20) as u32 },
            relay: if net.chance(1, 3) { Some(net.next_u64() as u32) } else { None },
            dup: net.chance(1, 8),
        });
    }
    // native pairings
    let npairs = knobs.range(2, 8);
    let corp = corpus::corpus();
    for _ in 0..npairs {
        let (s, r) = if wl.chance(1, 6) {
            let (a, b) = *wl.pick(&[("OldList", "NewList"), ("NatTree", "IntTree"), ("Vec<NatTree>", "Option<IntTree>"), ("RecV1", "RecV2"), ("RecV2", "RecV3"), ("(OldList,u8)", "NewList"), ("Vec<OldList>", "Vec<OldList>"), ("ServRefU", "ServRefU"), ("SmallNat", "i128"), ("SmallNat", "u128"), ("SmallInt", "i128"), ("Vec<SmallNat>", "Vec<i128>"), ("Vec<SmallNat>", "Vec<u128>"), ("Vec<SmallInt>", "Vec<i128>"), ("Option<SmallNat>", "Option<i128>"), ("BTreeMap<String,SmallNat>", "BTreeMap<String,i128>"), ("BTreeMap<String,Option<Nat>>", "BTreeMap<String,Option<String>>"), ("BTreeMap<Nat,Int>", "BTreeMap<Int,Int>"), ("Vec<Nat>", "Vec<Int>"), ("BTreeMap<String,Nat>", "BTreeMap<String,Int>")]);
            (a.to_string(), b.to_string())
        } else if wl.chance(1, 2) {
            (wl.pick(&FAMILIES).to_string(), wl.pick(&FAMILIES).to_string())
        } else {
            (corp[wl.usize(corp.len())].name.clone(), if wl.chance(1, 2) { wl.pick(&FAMILIES).to_string() } else { corp[wl.usize(corp.len())].name.clone() })
        };
        events.push(Ev::NativePair { at: sched.range(0, horizon as u64) as u32, sender: s, receiver: r, vseed: wl.next_u64(), size: wl.range(0, 10) as usize });
    }
    events.sort_by_key(|e| e.at());
    Sc { stack_kib, env, venvs, versions, kinds, events }
}

// ---------------------------------------------------------------- execution

#[derive(Default)]
struct Local {
    events: Vec<String>,
    viol: Vec<(String, String, String)>,
    probes: BTreeMap<String, u64>,
    ops: BTreeMap<String, u64>,
    faults: BTreeMap<String, u64>,
    states: Vec<u64>,
    ticks: u64,
    nontrivial: bool,
}
impl Local {
    fn probe(&mut self, k: &str) {
        *self.probes.entry(k.to_string()).or_insert(0) += 1;
    }
    fn op(&mut self, k: &str) {
        *self.ops.entry(k.to_string()).or_insert(0) += 1;
    }
    fn fault(&mut self, k: &str) {
        *self.faults.entry(k.to_string()).or_insert(0) += 1;
    }
    fn v(&mut self, inv: &str, key: String, detail: String) {
        self.viol.push((inv.to_string(), key, detail));
    }
}

fn real_subtype(tenv: &TypeEnv, a: &SType, b: &SType) -> Result<bool, String> {
    let (ta, tb) = (to_type(a), to_type(b));
    match guard(|| {
        let mut g = Gamma::default();
        subtype::subtype_with_config(OptReport::Silence, &mut g, tenv, &ta, &tb)
    }) {
        Guarded::Done(Ok(())) => Ok(true),
        Guarded::Done(Err(e)) => {
            if format!("{e:?}").contains("Recursion limit") {
                Err("recursion-limit".into())
            } else {
                Ok(false)
            }
        }
        Guarded::Panicked(m) => Err(format!("panic:{m}")),
    }
}

fn show_types(ts: &[SType]) -> String {
    format!("({})", ts.iter().map(show_type).collect::<Vec<_>>().join(", "))
}

fn encode_untyped(tenv: &TypeEnv, tys: &[SType], vals: &[AV]) -> Result<Vec<u8>, String> {
    let ttys: Vec<_> = tys.iter().map(to_type).collect();
    let args = IDLArgs::new(&vals.iter().map(to_idl).collect::<Vec<_>>());
    match guard(|| args.to_bytes_with_types(tenv, &ttys)) {
        Guarded::Done(Ok(b)) => Ok(b),
        Guarded::Done(Err(e)) => Err(e.to_string()),
        Guarded::Panicked(m) => Err(format!("panic:{m}")),
    }
}

fn decode_untyped(tenv: &TypeEnv, tys: &[SType], bytes: &[u8]) -> Result<Vec<AV>, String> {
    let ttys: Vec<_> = tys.iter().map(to_type).collect();
    match guard(|| IDLArgs::from_bytes_with_types(bytes, tenv, &ttys)) {
        Guarded::Done(Ok(a)) => Ok(a.args.iter().map(from_idl).collect()),
        Guarded::Done(Err(e)) => Err(crate::corpus::err_chain(e)),
        Guarded::Panicked(m) => Err(format!("panic:{m}")),
    }
}

/// One delivery of `bytes` (values `sent` of types `wire`) to a party expecting `expect`.
/// Returns the decoded values when the pair is gate-accepted and decoding worked.
#[allow(clippy::too_many_arguments)]
fn deliver(l: &mut Local, env: &SEnv, tenv: &TypeEnv, wire: &[SType], expect: &[SType], bytes: &[u8], what: &str, steps: &str) -> Option<Vec<AV>> {
    deliver_gated(l, env, tenv, wire, expect, bytes, what, steps, false)
}

/// `accepted_by_text_gate`: the two parties are adjacent versions whose upgrade was accepted by
/// service_compatible on .did text; that acceptance is then the "subtype check accepts" of C04.
#[allow(clippy::too_many_arguments)]
fn deliver_gated(l: &mut Local, env: &SEnv, tenv: &TypeEnv, wire: &[SType], expect: &[SType], bytes: &[u8], what: &str, steps: &str, accepted_by_text_gate: bool) -> Option<Vec<AV>> {
    l.op("delivery");
    let gate = if accepted_by_text_gate {
        l.probe("delivery_judged_on_text_gate_acceptance");
        Ok(true)
    } else {
        real_subtype(tenv, &tuple_of(wire), &tuple_of(expect))
    };
    match gate {
        Err(e) if e.starts_with("panic:") => {
            l.v("gate-no-panic", format!("{}@{}", what, panic_key(&e)), format!("subtype check panicked on {} <: {}: {e}", show_types(wire), show_types(expect)));
            return None;
        }
        Err(_) => {
            l.probe("gate_recursion_limit");
            return None;
        }
        Ok(false) => {
            // several upgrades apart and the checker does not accept the pair directly:
            // nothing is promised by C04 (transitivity is C05's business)
            l.probe("pair_not_accepted_directly");
            return None;
        }
        Ok(true) => {}
    }
    l.states.push(fnv1a(format!("{steps}|{what}").as_bytes()));
    match decode_untyped(tenv, expect, bytes) {
        Err(e) => {
            let key = format!("{} <: {}", show_types(wire), show_types(expect));
            if e.starts_with("panic:") {
                l.v("decode-no-panic", format!("{key}@{}", panic_key(&e)), format!("{what}: decoding panicked: {e}"));
            } else {
                let key = if mentions_uninhabited_record_in_reference(env, wire.iter().chain(expect.iter())) {
                    KNOWN_CLASS_MU_RECORD.to_string()
                } else if e.contains("Recursion limit exceeded") && expect.iter().any(|t| reaches_mu_opt(env, t)) {
                    KNOWN_CLASS_MU_OPT.to_string()
                } else {
                    key
                };
                l.v(
                    "accepted-subtype-decodes-untyped",
                    key,
                    format!("{what}: the checker accepts {} <: {} but decoding a value of the subtype at the supertype failed: {e}; message {}; env [{}]", show_types(wire), show_types(expect), crate::engines::stream::hex(bytes), show_env(env)),
                );
            }
            None
        }
        Ok(vals) => {
            if vals.len() != expect.len() {
                l.v("decoded-arity", format!("{} <: {}", show_types(wire), show_types(expect)), format!("{what}: {} values decoded for {} expected types", vals.len(), expect.len()));
                return None;
            }
            for (v, t) in vals.iter().zip(expect.iter()) {
                if let Err(e) = has_type(env, v, t) {
                    l.v(
                        "decoded-value-has-receiver-type",
                        format!("{} <: {}", show_types(wire), show_types(expect)),
                        format!("{what}: decoding at {} returned a value that is not of that type: {e}; env [{}]", show_type(t), show_env(env)),
                    );
                    return None;
                }
            }
            Some(vals)
        }
    }
}

/// Class key of a recorded finding (known-findings.txt): the header parser rewrites
/// uninhabited recursive records of the wire table to `empty` (TypeEnv::replace_empty
/// called from Header::to_types); in the *argument* position of a reference type the
/// rewritten wire signature is then no longer a subtype of the original one.
pub const KNOWN_CLASS_MU_RECORD: &str = "callsite=binary_parser::Header::to_types/replace_empty:reference-signature-mentions-uninhabited-record";

/// Class key of a recorded finding: an expected option type that unfolds to itself
/// (`type T = opt T`) against a non-optional wire value: the decoder tries the constituent type,
/// which is the same option type again, until its recursion guard turns that into a hard error
/// instead of `null`.
pub const KNOWN_CLASS_MU_OPT: &str = "callsite=de::deserialize_option/(_,Opt):expected-type-is-an-option-that-unfolds-to-itself";

/// Does the type contain an option chain that leads back to a definition it started from?
pub fn reaches_mu_opt(env: &SEnv, t: &SType) -> bool {
    fn chain(env: &SEnv, t: &SType, seen: &mut Vec<String>) -> bool {
        match t {
            SType::Opt(x) => chain(env, x, seen),
            SType::Name(n) => {
                if seen.contains(n) {
                    return true;
                }
                seen.push(n.clone());
                match env.0.get(n) {
                    Some(b @ SType::Opt(_)) | Some(b @ SType::Name(_)) => chain(env, b, seen),
                    _ => false,
                }
            }
            _ => false,
        }
    }
    let mut st = Vec::new();
    subterms(t, &mut st);
    let mut names: Vec<String> = Vec::new();
    for x in &st {
        if let SType::Name(n) = x {
            names.push(n.clone());
        }
    }
    // also definitions reachable from t
    let mut i = 0;
    while i < names.len() {
        if let Some(b) = env.0.get(&names[i]) {
            let mut st2 = Vec::new();
            subterms(b, &mut st2);
            for x in st2 {
                if let SType::Name(n) = x {
                    if !names.contains(&n) {
                        names.push(n);
                    }
                }
            }
        }
        i += 1;
    }
    names.iter().any(|n| chain(env, &SType::Name(n.clone()), &mut Vec::new()))
}

/// Does some function/service reference type (reached through names) mention a
/// named record type without inhabitants?
pub fn mentions_uninhabited_record_in_reference<'a>(env: &SEnv, ts: impl Iterator<Item = &'a SType>) -> bool {
    let inh = env.inhabited_names();
    fn refs(env: &SEnv, t: &SType, inside_ref: bool, inh: &std::collections::BTreeSet<String>, seen: &mut std::collections::BTreeSet<(String, bool)>) -> bool {
        match t {
            SType::Prim(_) => false,
            SType::Opt(x) | SType::Vec(x) => refs(env, x, inside_ref, inh, seen),
            SType::Record(fs) | SType::Variant(fs) => fs.iter().any(|(_, x)| refs(env, x, inside_ref, inh, seen)),
            SType::Func { args, rets, .. } => args.iter().chain(rets.iter()).any(|x| refs(env, x, true, inh, seen)),
            SType::Service(ms) => ms.iter().any(|(_, x)| refs(env, x, true, inh, seen)),
            SType::Name(n) => {
                if inside_ref && !inh.contains(n) && matches!(env.0.get(n), Some(SType::Record(_))) {
                    return true;
                }
                if !seen.insert((n.clone(), inside_ref)) {
                    return false;
                }
                env.0.get(n).map(|x| refs(env, x, inside_ref, inh, seen)).unwrap_or(false)
            }
        }
    }
    let mut seen = std::collections::BTreeSet::new();
    ts.into_iter().any(|t| refs(env, t, false, &inh, &mut seen))
}

fn show_env(env: &SEnv) -> String {
    show_prog(env, &env.0.keys().cloned().collect::<Vec<_>>(), None).replace('\n', " ")
}

enum Q {
    Scenario(usize),
    DeliverCall { bytes: Vec<u8>, from_pos: usize, method: String, reply_delay: u32, relay: Option<u32>, client: usize },
    DeliverReply { bytes: Vec<u8>, service_pos: usize, client_pos: usize, method: String },
}

fn host_limit_excluded(s: &str, r: &str) -> bool {
    if s == r {
        return false;
    }
    // 128-bit host integers, fixed-size arrays and bounded vectors legitimately reject
    // values of a wider sender type ("host-type range limits aside")
(r.contains("128") && !s.contains("Small")) || r.contains('[') || r.contains("ByteArray") || r.contains("Bounded") || r.contains("Duration") || r.contains("PathBuf")
}

fn native_pair(l: &mut Local, sender: &str, receiver: &str, vseed: u64, size: usize) {
    let (Some(s), Some(r)) = (corpus::find(sender), corpus::find(receiver)) else {
        l.probe("unknown_corpus_type");
        return;
    };
    l.op("native_pairing");
    if host_limit_excluded(sender, receiver) {
        l.probe("pairing_excluded_host_limit");
        return;
    }
    let (ts, tr) = match guard(|| ((s.ty)(), (r.ty)())) {
        Guarded::Done(x) => x,
        Guarded::Panicked(m) => {
            l.v("gate-no-panic", format!("ty:{sender}/{receiver}@{}", panic_key(&m)), format!("deriving types panicked: {m}"));
            return;
        }
    };
    let gate = guard(|| {
        let mut g = Gamma::default();
        subtype::subtype_with_config(OptReport::Silence, &mut g, &TypeEnv::new(), &ts, &tr).is_ok()
    });
    let accepted = match gate {
        Guarded::Done(b) => b,
        Guarded::Panicked(m) => {
            l.v("gate-no-panic", format!("{sender} <: {receiver}@{}", panic_key(&m)), format!("subtype check panicked on {sender} <: {receiver}: {m}"));
            return;
        }
    };
    if !accepted {
        l.probe("native_pair_rejected_by_gate");
        return;
    }
    l.probe("native_pair_accepted_by_gate");
    if sender != receiver {
        l.nontrivial = true;
    }
    let mut rng = Rng::new(vseed);
    let v = (s.gen)(&mut rng, size);
    let bytes = match guard(|| (s.encode_one)(v.as_ref())) {
        Guarded::Done(Ok(b)) => b,
        _ => {
            l.probe("sender_encode_failed");
            return;
        }
    };
    l.states.push(fnv1a(format!("native|{sender}|{receiver}").as_bytes()));
    match guard(|| (r.decode_one)(&bytes)) {
        Guarded::Done(Ok(got)) => {
            // "... and the result is a value of t'": the sender's value, seen at the receiver's type
            let mut renv = SEnv::new();
            let rt = (r.sim_type)(&mut renv);
            let unordered = ["Hash", "BTree", "Heap", "Set"].iter().any(|k| receiver.contains(k));
            let (sv, rv) = ((s.av)(v.as_ref(), false), (r.av)(got.as_ref(), false));
            if let Err(e) = coerced(&renv, &sv, &rv, &rt, unordered) {
                l.v("native-result-is-the-sent-value", format!("{sender} <: {receiver}"), format!("decoding a {sender} at Rust type {receiver} succeeded with a different value: {e}; message {}", crate::engines::stream::hex(&bytes)));
            }
        }
        // Rust tuples, tuple structs and tuple variants are positional: by design (pinned by the
        // repository's own test_tuple) they only read tuple-shaped wire records. A host limit.
        Guarded::Done(Err(e)) if e.contains("is not a tuple type") => l.probe("native_receiver_positional_tuple_limit"),
        Guarded::Done(Err(e)) => l.v(
            "accepted-subtype-decodes-native",
            format!("{sender} <: {receiver}"),
            format!("the checker accepts {sender} <: {receiver} but decoding {} at Rust type {receiver} failed: {}; message {}", (s.av)(v.as_ref(), false).brief(), e.chars().take(300).collect::<String>(), crate::engines::stream::hex(&bytes)),
        ),
        Guarded::Panicked(m) => l.v("decode-no-panic", format!("{sender} <: {receiver}@{}", panic_key(&m)), format!("native decode panicked: {m}")),
    }
    // the untyped API at the receiver's Candid type (written by the harness, no knots)
    let mut renv = SEnv::new();
    let rt = (r.sim_type)(&mut renv);
    let tenv = to_env(&renv);
    match decode_untyped(&tenv, &[rt.clone()], &bytes) {
        Ok(vals) => {
            if let Some(v0) = vals.first() {
                if let Err(e) = has_type(&renv, v0, &rt) {
                    l.v("decoded-value-has-receiver-type", format!("{sender} <: {receiver}"), format!("untyped decode of a {sender} at the Candid type of {receiver} returned a value not of that type: {e}"));
                }
            }
        }
        Err(e) => {
            if e.starts_with("panic:") {
                l.v("decode-no-panic", format!("{sender} <: {receiver}@{}", panic_key(&e)), format!("untyped decode panicked: {e}"));
            } else {
                l.v(
                    "accepted-subtype-decodes-untyped",
                    format!("{sender} <: {receiver}"),
                    format!("the checker accepts {sender} <: {receiver} but untyped decoding at {} failed: {e}; message {}", show_type(&rt), crate::engines::stream::hex(&bytes)),
                );
            }
        }
    }
}

fn run(sc: &Sc, log: bool) -> Local {
    let mut l = Local::default();
    for k in [
        "pair_not_accepted_directly",
        "gate_recursion_limit",
        "upgrade_rejected_by_gate",
        "upgrade_accepted_by_gate",
        "delivery_across_upgrade",
        "delivery_across_two_or_more_upgrades",
        "relay_checked",
        "native_pair_accepted_by_gate",
        "native_pair_rejected_by_gate",
        "pairing_excluded_host_limit",
        "sender_encode_failed",
        "sender_type_uninhabited",
        "text_gate_used",
        "text_gate_panicked",
        "delivery_judged_on_text_gate_acceptance",
        "native_receiver_positional_tuple_limit",
    ] {
        l.probes.entry(k.to_string()).or_insert(0);
    }
    // One world environment: the definitions of version v are renamed to `<name>__v<v>`, so that
    // a definition may differ from version to version under the same source name.
    let venv = |v: usize| -> &SEnv { sc.venvs.get(v).and_then(|e| e.as_ref()).unwrap_or(&sc.env) };
    if sc.versions.is_empty() || (0..sc.versions.len()).any(|v| !env_closed(venv(v)) || !closed(venv(v), &sc.versions[v])) {
        return l;
    }
    let mut world = SEnv::new();
    let mut wversions: Vec<SType> = Vec::new();
    for v in 0..sc.versions.len() {
        let f = move |n: &str| format!("{n}__v{v}");
        for (k, t) in rename_env(venv(v), &f).0 {
            world.0.insert(k, t);
        }
        wversions.push(rename_type(&sc.versions[v], &f));
    }
    let env = &world;
    let tenv = to_env(env);
    let vg = ValGen::new(env, 140);
    let mut deployed: Vec<usize> = vec![0];
    // how the version at each deployed position was accepted
    let mut via_text: Vec<bool> = vec![false];
    let mut client_pos: BTreeMap<usize, usize> = BTreeMap::new();
    let mut heap: BinaryHeap<Reverse<(u32, u64, usize)>> = BinaryHeap::new();
    let mut pending: Vec<Option<Q>> = Vec::new();
    let mut seq = 0u64;
    let mut push = |heap: &mut BinaryHeap<Reverse<(u32, u64, usize)>>, pending: &mut Vec<Option<Q>>, seq: &mut u64, at: u32, q: Q| {
        pending.push(Some(q));
        *seq += 1;
        heap.push(Reverse((at, *seq, pending.len() - 1)));
    };
    for (i, e) in sc.events.iter().enumerate() {
        push(&mut heap, &mut pending, &mut seq, e.at(), Q::Scenario(i));
    }
    let steps_between = |deployed: &Vec<usize>, a: usize, b: usize| -> String {
        let mut ks: Vec<&str> = (a + 1..=b).filter_map(|p| deployed.get(p)).map(|v| sc.kinds.get(*v).map(|s| s.as_str()).unwrap_or("?")).collect();
        ks.sort_unstable();
        ks.join("+")
    };
    while let Some(Reverse((now, _, idx))) = heap.pop() {
        l.ticks = l.ticks.max(now as u64);
        let Some(q) = pending[idx].take() else { continue };
        match q {
            Q::Scenario(i) => match &sc.events[i] {
                Ev::Join { client, .. } => {
                    client_pos.insert(*client, deployed.len() - 1);
                    if log {
                        l.events.push(format!("t={now} client {client} joins at version #{}", deployed.len() - 1));
                    }
                }
                Ev::Upgrade { candidate, text_gate, old_only, .. } => {
                    let Some(new) = wversions.get(*candidate) else { continue };
                    let cur = &wversions[*deployed.last().unwrap()];
                    l.op("upgrade_attempt");
                    let accepted = if *text_gate {
                        l.probe("text_gate_used");
                        // each program is printed with its own definitions under their source names (so
                        // names clash between the two programs, possibly with different bodies); a seeded
                        // subset of the old program's definitions gets names that exist only there
                        let cur_v = *deployed.last().unwrap();
                        let (nenv, oenv) = (venv(*candidate), venv(cur_v));
                        let f = |n: &str| if old_only.iter().any(|r| r == n) { format!("Old_{n}") } else { n.to_string() };
                        let oenv2 = rename_env(oenv, &f);
                        let new_txt = show_prog(nenv, &nenv.0.keys().cloned().collect::<Vec<_>>(), Some(&sc.versions[*candidate]));
                        let old_txt = show_prog(&oenv2, &oenv2.0.keys().cloned().collect::<Vec<_>>(), Some(&rename_type(&sc.versions[cur_v], &f)));
                        match guard(|| service_compatible(CandidSource::Text(&new_txt), CandidSource::Text(&old_txt))) {
                            Guarded::Done(r) => r.is_ok(),
                            Guarded::Panicked(_) => {
                                // a panic of the text front end is not an acceptance; totality of the
                                // parsers is C13's subject (not claimed), so it is only counted here
                                l.probe("text_gate_panicked");
                                false
                            }
                        }
                    } else {
                        match real_subtype(&tenv, new, cur) {
                            Ok(b) => {
                                // gate self-consistency: the all-errors report agrees
                                let (tn, tc) = (to_type(new), to_type(cur));
                                if let Guarded::Done(errs) = guard(|| subtype::subtype_check_all(&mut Gamma::default(), &tenv, &tn, &tc)) {
                                    if errs.is_empty() != b && !errs.iter().any(|e| e.message.contains("recursion limit")) {
                                        l.v("gate-report-agrees", format!("{} <: {}", show_type(new), show_type(cur)), format!("subtype says {b} but subtype_check_all returned {} incompatibilities", errs.len()));
                                    }
                                }
                                b
                            }
                            Err(e) => {
                                if e.starts_with("panic:") {
                                    l.v("gate-no-panic", format!("upgrade@{}", panic_key(&e)), format!("subtype check panicked on an upgrade: {e}"));
                                }
                                false
                            }
                        }
                    };
                    if accepted {
                        deployed.push(*candidate);
                        via_text.push(*text_gate);
                        l.probe("upgrade_accepted_by_gate");
                        l.fault(&format!("upgrade:{}", sc.kinds.get(*candidate).map(|s| s.as_str()).unwrap_or("?")));
                    } else {
                        l.probe("upgrade_rejected_by_gate");
                    }
                    if log {
                        l.events.push(format!("t={now} upgrade to candidate {candidate} ({}) {}", sc.kinds.get(*candidate).map(|s| s.as_str()).unwrap_or("?"), if accepted { "DEPLOYED" } else { "rejected" }));
                    }
                }
                Ev::Call { client, method_pick, vseed, budget, net_delay, reply_delay, relay, dup, .. } => {
                    let pos = *client_pos.get(client).unwrap_or(&0);
                    let ver = &wversions[deployed[pos]];
                    let ms = methods_of(ver);
                    if ms.is_empty() {
                        continue;
                    }
                    let (mname, args, _, _) = &ms[*method_pick as usize % ms.len()];
                    if args.iter().any(|t| !vg.inhabited(t)) {
                        l.probe("sender_type_uninhabited");
                        continue;
                    }
                    let mut rng = Rng::new(*vseed);
                    let mut b = *budget as isize;
                    let vals: Vec<AV> = args.iter().filter_map(|t| vg.gen(&mut rng, t, &mut b)).collect();
                    if vals.len() != args.len() {
                        continue;
                    }
                    let bytes = match encode_untyped(&tenv, args, &vals) {
                        Ok(b) => b,
                        Err(_) => {
                            l.probe("sender_encode_failed");
                            continue;
                        }
                    };
                    l.op("call_sent");
                    if log {
                        l.events.push(format!("t={now} client {client}@#{pos} calls {mname}{} ({} bytes), arrives t={}", show_types(args), bytes.len(), now + net_delay));
                    }
                    push(&mut heap, &mut pending, &mut seq, now + net_delay, Q::DeliverCall { bytes: bytes.clone(), from_pos: pos, method: mname.clone(), reply_delay: *reply_delay, relay: *relay, client: *client });
                    if *dup {
                        l.fault("network_duplicate");
                        push(&mut heap, &mut pending, &mut seq, now + 2 * net_delay + 1, Q::DeliverCall { bytes, from_pos: pos, method: mname.clone(), reply_delay: *reply_delay, relay: None, client: *client });
                    }
                    if *net_delay >= 50 {
                        l.fault("network_long_delay");
                    }
                }
                Ev::NativePair { sender, receiver, vseed, size, .. } => {
                    native_pair(&mut l, sender, receiver, *vseed, *size);
                    if log {
                        l.events.push(format!("t={now} native pairing {sender} -> {receiver}"));
                    }
                }
            },
            Q::DeliverCall { bytes, from_pos, method, reply_delay, relay, client } => {
                let spos = deployed.len() - 1;
                let sender_ms = methods_of(&wversions[deployed[from_pos]]);
                let recv_ms = methods_of(&wversions[deployed[spos]]);
                let Some((_, wire_args, _, _)) = sender_ms.iter().find(|m| m.0 == method) else { continue };
                let Some((_, exp_args, rets, _)) = recv_ms.iter().find(|m| m.0 == method) else {
                    l.v("gate-keeps-methods", format!("method {method}"), format!("method {method} of version #{from_pos} no longer exists in deployed version #{spos}"));
                    continue;
                };
                if spos > from_pos {
                    l.probe("delivery_across_upgrade");
                    l.fault("delivered_after_upgrade");
                    l.nontrivial = true;
                }
                if spos > from_pos + 1 {
                    l.probe("delivery_across_two_or_more_upgrades");
                }
                let steps = steps_between(&deployed, from_pos, spos);
                if log {
                    l.events.push(format!("t={now} call {method} from #{from_pos} delivered to service at #{spos} [{steps}]"));
                }
                let adjacent_text = spos == from_pos + 1 && via_text.get(spos).copied().unwrap_or(false);
                let direct = deliver_gated(&mut l, env, &tenv, wire_args, exp_args, &bytes, &format!("call {method} #{from_pos}->#{spos}"), &steps, adjacent_text);
                // relay at an intermediate version: decode, re-encode, forward
                if let (Some(lag), Some(direct)) = (relay, &direct) {
                    let mpos = from_pos + (lag as usize % (spos - from_pos + 1));
                    let relay_ms = methods_of(&wversions[deployed[mpos]]);
                    if let Some((_, mid_args, _, _)) = relay_ms.iter().find(|m| m.0 == method) {
                        if real_subtype(&tenv, &tuple_of(wire_args), &tuple_of(mid_args)) == Ok(true) && real_subtype(&tenv, &tuple_of(mid_args), &tuple_of(exp_args)) == Ok(true) {
                            if let Some(at_mid) = deliver(&mut l, env, &tenv, wire_args, mid_args, &bytes, &format!("relay@#{mpos} of call {method}"), &steps) {
                                if let Ok(b2) = encode_untyped(&tenv, mid_args, &at_mid) {
                                    if let Some(via) = deliver(&mut l, env, &tenv, mid_args, exp_args, &b2, &format!("call {method} relayed #{mpos}->#{spos}"), &steps) {
                                        l.probe("relay_checked");
                                        for (i, (a, b)) in via.iter().zip(direct.iter()).enumerate() {
                                            if !coherent(a, b) {
                                                l.v(
                                                    "relay-coherence",
                                                    format!("{} <: {} <: {}", show_types(wire_args), show_types(mid_args), show_types(exp_args)),
                                                    format!("argument {i} of {method}: decoded directly at {} gives {}, via the intermediate type {} gives {}; they differ by more than options turning into null", show_types(exp_args), b.brief(), show_types(mid_args), a.brief()),
                                                );
                                            }
                                        }
                                    }
                                } else {
                                    l.probe("relay_reencode_failed");
                                }
                            }
                        }
                    }
                }
                // the service replies at its own version
                if direct.is_some() && !rets.is_empty() && rets.iter().all(|t| vg.inhabited(t)) {
                    let mut rng = Rng::new(fnv1a(&bytes) ^ now as u64);
                    let mut b = 30isize;
                    let vals: Vec<AV> = rets.iter().filter_map(|t| vg.gen(&mut rng, t, &mut b)).collect();
                    if vals.len() == rets.len() {
                        if let Ok(rb) = encode_untyped(&tenv, rets, &vals) {
                            let cpos = *client_pos.get(&client).unwrap_or(&from_pos);
                            push(&mut heap, &mut pending, &mut seq, now + reply_delay, Q::DeliverReply { bytes: rb, service_pos: spos, client_pos: cpos, method: method.clone() });
                        }
                    }
                }
            }
            Q::DeliverReply { bytes, service_pos, client_pos: cpos, method } => {
                let svc_ms = methods_of(&wversions[deployed[service_pos]]);
                let cl_ms = methods_of(&wversions[deployed[cpos]]);
                let (Some((_, _, wire_rets, _)), Some((_, _, exp_rets, _))) = (svc_ms.iter().find(|m| m.0 == method), cl_ms.iter().find(|m| m.0 == method)) else { continue };
                let steps = steps_between(&deployed, cpos, service_pos);
                if service_pos > cpos {
                    l.probe("delivery_across_upgrade");
                    l.nontrivial = true;
                }
                if log {
                    l.events.push(format!("t={now} reply of {method} from service #{service_pos} delivered to client at #{cpos} [{steps}]"));
                }
                let adjacent_text = service_pos == cpos + 1 && via_text.get(service_pos).copied().unwrap_or(false);
                deliver_gated(&mut l, env, &tenv, wire_rets, exp_rets, &bytes, &format!("reply {method} #{service_pos}->#{cpos}"), &steps, adjacent_text);
            }
        }
    }
    l
}

pub fn execute(sc: &Sc, ctx: &mut Ctx) -> Result<(), String> {
    let sc2 = sc.clone();
    let l = on_thread(sc.stack_kib * 1024, move || run(&sc2, true)).map_err(|e| format!("wire engine (C04) panicked outside a guarded call: {e}"))?;
    for e in &l.events {
        ctx.ev(e);
    }
    for (k, n) in &l.probes {
        ctx.stats.probe_n(k, *n);
    }
    for (k, n) in &l.ops {
        *ctx.stats.ops.entry(k.clone()).or_insert(0) += n;
    }
    for (k, n) in &l.faults {
        ctx.stats.fault(k, *n);
    }
    for h in &l.states {
        ctx.stats.state(*h);
    }
    ctx.stats.sim_ticks += l.ticks;
    if l.nontrivial {
        ctx.stats.nontrivial_runs += 1;
    }
    if ctx.stats.samples.len() < 6 && l.events.len() > 3 {
        ctx.stats.sample(serde_json::json!({"env": show_env(&sc.env), "v0": show_type(&sc.versions[0]), "timeline": l.events.iter().take(12).collect::<Vec<_>>()}));
    }
    for (inv, key, detail) in l.viol {
        ctx.violate(&inv, &key, detail);
    }
    Ok(())
}

pub fn size(sc: &Sc) -> usize {
    sc.env.0.values().map(|t| t.nodes()).sum::<usize>()
        + sc.venvs.iter().flatten().map(|e| e.0.values().map(|t| t.nodes()).sum::<usize>()).sum::<usize>()
        + sc.versions.iter().map(|t| t.nodes()).sum::<usize>()
        + sc
            .events
            .iter()
            .map(|e| match e {
                Ev::Call { budget, relay, dup, .. } => 3 + *budget as usize / 4 + relay.is_some() as usize + *dup as usize,
                Ev::NativePair { size, .. } => 2 + size,
                _ => 2,
            })
            .sum::<usize>()
}

pub fn shrink(sc: &Sc) -> Vec<Sc> {
    let mut out = Vec::new();
    // drop events: halves, then singles
    if sc.events.len() > 1 {
        let h = sc.events.len() / 2;
        for keep in [&sc.events[..h], &sc.events[h..]] {
            let mut s = sc.clone();
            s.events = keep.to_vec();
            out.push(s);
        }
        for i in 0..sc.events.len() {
            let mut s = sc.clone();
            s.events.remove(i);
            out.push(s);
        }
    }
    // drop the last candidate version when no event refers to it
    if sc.versions.len() > 1 {
        let last = sc.versions.len() - 1;
        if !sc.events.iter().any(|e| matches!(e, Ev::Upgrade { candidate, .. } if *candidate == last)) {
            let mut s = sc.clone();
            s.versions.pop();
            s.kinds.pop();
            if s.venvs.len() > s.versions.len() {
                s.venvs.pop();
            }
            out.push(s);
        }
    }
    // simplify calls
    for (i, e) in sc.events.iter().enumerate() {
        if let Ev::Call { at, client, method_pick, vseed, budget, net_delay, reply_delay, relay, dup } = e {
            if relay.is_some() || *dup {
                let mut s = sc.clone();
                s.events[i] = Ev::Call { at: *at, client: *client, method_pick: *method_pick, vseed: *vseed, budget: *budget, net_delay: *net_delay, reply_delay: *reply_delay, relay: None, dup: false };
                out.push(s);
            }
            if *budget > 1 {
                let mut s = sc.clone();
                s.events[i] = Ev::Call { at: *at, client: *client, method_pick: *method_pick, vseed: *vseed, budget: budget / 2, net_delay: *net_delay, reply_delay: *reply_delay, relay: *relay, dup: *dup };
                out.push(s);
            }
        }
        if let Ev::NativePair { at, sender, receiver, vseed, size } = e {
            if *size > 0 {
                let mut s = sc.clone();
                s.events[i] = Ev::NativePair { at: *at, sender: sender.clone(), receiver: receiver.clone(), vseed: *vseed, size: size / 2 };
                out.push(s);
            }
        }
    }
    // drop unused definitions
    let mut used: Vec<String> = Vec::new();
    for v in &sc.versions {
        let mut st = Vec::new();
        subterms(v, &mut st);
        for x in st {
            if let SType::Name(n) = x {
                used.push(n);
            }
        }
    }
    let mut i = 0;
    while i < used.len() {
        if let Some(t) = sc.env.0.get(&used[i]) {
            let mut st = Vec::new();
            subterms(t, &mut st);
            for x in st {
                if let SType::Name(n) = x {
                    if !used.contains(&n) {
                        used.push(n);
                    }
                }
            }
        }
        i += 1;
    }
    if sc.env.0.keys().any(|k| !used.contains(k)) && sc.venvs.iter().all(|e| e.is_none()) {
        let mut s = sc.clone();
        s.env.0.retain(|k, _| used.contains(k));
        out.push(s);
    }
    // forget per-version definitions (every version uses the base environment)
    if sc.venvs.iter().any(|e| e.is_some()) {
        let mut s = sc.clone();
        s.venvs = vec![None; sc.versions.len()];
        out.push(s);
    }
    out
}
