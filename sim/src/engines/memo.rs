//! Engine A `memo-sim` (C01, C03): cooperative tasks interleaved at API-call
//! granularity on shared threads ("worlds"), with failed operations, memo
//! clears and writer faults as history events.
//!
//! Oracles: round-trip identity, parity with a reference execution of the task
//! alone on a fresh thread, and (C03) the reference wire decoder RD.

use crate::corpus::{self, DynType};
use crate::kernel::guard::{guard, panic_key, Guarded};
use crate::kernel::io::{IoPlan, SimWriter};
use crate::kernel::report::{Ctx, Tier};
use crate::kernel::rng::{fnv1a, mix, Rng};
use crate::models::conv::{to_env, to_idl_loose, to_type};
use crate::models::gen::{gen_data_type, gen_env, TyKnobs, ValGen};
use crate::models::rd;
use crate::models::stype::*;
use candid::de::{DecoderConfig, IDLDeserialize};
use candid::ser::IDLBuilder;
use candid::types::internal::TypeContainer;
use serde::{Deserialize, Serialize};
use std::any::Any;
use std::collections::BTreeMap;
use std::sync::mpsc;

#[derive(Serialize, Deserialize, Clone, Debug, PartialEq)]
pub enum FailKind {
    /// RefCell that is mutably borrowed while being encoded
    BorrowedRefCell,
    /// SystemTime before the epoch
    PreEpochTime,
    /// PathBuf that is not UTF-8
    NonUtf8Path,
    /// PhantomData (its encoder always fails)
    Phantom,
}

#[derive(Serialize, Deserialize, Clone, Debug, PartialEq)]
pub enum Stage {
    /// T::ty()
    Ty(String),
    /// types::internal::env_clear()
    EnvClear,
    /// TypeContainer::new().add::<T>()
    ContainerAdd(String),
    /// subtype(T::ty(), T::ty()) and equal(..): resolves knots through the memo
    SelfSubtype(String),
    /// IDLValue::try_from_candid_type(&v)
    ToIdl { ty: String, vseed: u64, size: usize },
    NewBuilder { default: bool },
    Arg { ty: String, vseed: u64, size: usize },
    /// value_arg_with_type on the task's builder
    ValueArg {
        env: SEnv,
        ty: SType,
        val: AV,
        /// non-zero: the value is handed over in one of the looser spellings the
        /// re-annotation accepts (`conv::to_idl_loose`)
        #[serde(default)]
        loose: u64,
    },
    /// an `arg` that fails in the middle of the value; the builder is abandoned afterwards
    FailArg(FailKind),
    /// serialize(SimWriter(plan))
    Serialize { plan: IoPlan },
    SerializeToVec,
    DropBuilder,
    /// Encode!(&v) / encode_one(&v), twice back to back (identical bytes expected)
    EncodeOne { ty: String, vseed: u64, size: usize, macro_api: bool },
    /// IDLArgs::to_bytes_with_types
    ToBytesWithTypes {
        env: SEnv,
        tys: Vec<SType>,
        vals: Vec<AV>,
        #[serde(default)]
        loose: u64,
    },
    /// IDLDeserialize::new_with_config on the task's message; `truncate` cuts the message (fault)
    NewDecoder { truncate: Option<usize>, quota: Option<usize> },
    /// get_value::<T>() for the next argument of the message
    Get,
    /// get_value at a deliberately wrong type: fails mid-value; the decoder is abandoned afterwards
    GetWrong(String),
    Done,
    /// Decode!(&msg, T) / decode_one on a single-argument message
    DecodeOne { macro_api: bool },
}

#[derive(Serialize, Deserialize, Clone, Debug, PartialEq)]
pub struct Task {
    pub world: usize,
    pub stages: Vec<Stage>,
}

#[derive(Serialize, Deserialize, Clone, Debug, PartialEq)]
pub struct Sc {
    pub prop: String,
    pub stacks_kib: Vec<usize>,
    pub tasks: Vec<Task>,
    /// task index whose next stage runs at this step
    pub schedule: Vec<usize>,
}

pub fn runs_for(_prop: &str, tier: Tier) -> u64 {
    match tier {
        Tier::Quick => 8192,
        Tier::Thorough => 98304,
    }
}

// ---------------------------------------------------------------- stage outcomes

#[derive(Clone, Debug, PartialEq)]
pub enum Class {
    Ok,
    Err,
    Panic,
    /// precondition missing (e.g. no message because an earlier stage failed)
    Skipped,
}

#[derive(Clone, Debug)]
pub struct Out {
    pub class: Class,
    /// canonical abstract value of what a decode returned
    pub av: Option<AV>,
    pub note: String,
    pub viol: Vec<(String, String, String)>,
    pub fired: crate::kernel::io::IoFired,
    pub memo_fp: u64,
    /// reachability probes of the verif-hooks feature that fired during the call
    pub hooks: Vec<(&'static str, u64)>,
}
impl Out {
    fn new(class: Class, note: impl Into<String>) -> Out {
        Out { class, av: None, note: note.into(), viol: vec![], fired: Default::default(), memo_fp: 0, hooks: vec![] }
    }
}

#[derive(Clone)]
enum ArgRec {
    /// `enc`: abstract value in encoding order, `canon`: unordered containers sorted
    Native { ty: &'static DynType, enc: AV, canon: AV },
    Untyped { env: SEnv, ty: SType, val: AV },
}
fn native_rec(ty: &'static DynType, v: &dyn Any) -> ArgRec {
    ArgRec::Native { ty, enc: (ty.av)(v, false), canon: (ty.av)(v, true) }
}

#[derive(Default)]
struct TaskState {
    builder: Option<IDLBuilder>,
    building: Vec<ArgRec>,
    builder_broken: bool,
    first_bytes: Option<Vec<u8>>,
    err_prefix: Option<Vec<u8>>,
    message: Option<&'static [u8]>,
    msg_args: Vec<ArgRec>,
    decoder: Option<IDLDeserialize<'static>>,
    next_get: usize,
    decoder_cut: bool,
}

fn tracked() -> Vec<&'static DynType> {
    ["List", "MutA", "MutB", "Rose", "Expr", "S1", "S2", "E1", "G<S1>", "Vec<List>", "Option<MutA>", "Vec<MutB>"].iter().filter_map(|n| corpus::find(n)).collect()
}
fn memo_fingerprint() -> u64 {
    let mut h = 0u64;
    for d in tracked() {
        h = h * 3 + (d.memo_state)() as u64;
    }
    h
}

fn lookup(name: &str) -> Result<&'static DynType, Out> {
    corpus::find(name).ok_or_else(|| Out::new(Class::Skipped, format!("unknown corpus type {name}")))
}

/// C03: judge a produced message against RD.
fn check_message(bytes: &[u8], args: &[ArgRec]) -> Vec<(String, String, String)> {
    let mut v = Vec::new();
    let names: Vec<String> = args
        .iter()
        .map(|a| match a {
            ArgRec::Native { ty, .. } => ty.name.clone(),
            ArgRec::Untyped { ty, .. } => format!("untyped:{}", show_type(ty)),
        })
        .collect();
    let key = names.join(",");
    let parsed = match rd::parse(bytes) {
        Ok(p) => p,
        Err(rd::Malformed(clause, msg)) => {
            v.push((format!("wellformed-{clause}"), key, format!("message for ({}) is rejected by the reference decoder: {msg}; bytes {}", names.join(", "), crate::engines::stream::hex(bytes))));
            return v;
        }
    };
    if parsed.args.len() != args.len() {
        v.push(("argument-count".into(), key, format!("message declares {} arguments, {} were encoded", parsed.args.len(), args.len())));
        return v;
    }
    for (i, a) in args.iter().enumerate() {
        let (env, st, av) = match a {
            ArgRec::Native { ty, enc, .. } => {
                let mut env = SEnv::new();
                let st = (ty.sim_type)(&mut env);
                (env, st, enc.clone())
            }
            ArgRec::Untyped { env, ty, val } => (env.clone(), ty.clone(), val.clone()),
        };
        if let Err(e) = rd::bisim(&parsed, &parsed.args[i], &env, &st) {
            v.push(("argument-type".into(), key.clone(), format!("argument {i} ({}): wire type differs from {}: {e}; bytes {}", names[i], show_type(&st), crate::engines::stream::hex(bytes))));
            continue;
        }
        if parsed.values[i] != av {
            v.push((
                "argument-value".into(),
                key.clone(),
                format!("argument {i} ({}): reference decoder reads {} but {} was encoded; bytes {}", names[i], parsed.values[i].brief(), av.brief(), crate::engines::stream::hex(bytes)),
            ));
        }
    }
    v
}

fn gen_value(d: &'static DynType, vseed: u64, size: usize) -> Box<dyn Any> {
    let mut r = Rng::new(vseed);
    (d.gen)(&mut r, size)
}

fn e2s(e: candid::Error) -> String {
    let s = e.to_string();
    s.chars().take(200).collect()
}

fn fail_arg(b: &mut IDLBuilder, k: &FailKind) -> Result<(), String> {
    match k {
        FailKind::BorrowedRefCell => {
            let c = std::cell::RefCell::new((7u8, String::from("x"), candid::Nat::from(5u8)));
            let _g = c.borrow_mut();
            b.arg(&(String::from("before"), &c)).map(|_| ()).map_err(e2s)
        }
        FailKind::PreEpochTime => {
            let t = std::time::UNIX_EPOCH - std::time::Duration::from_secs(5);
            b.arg(&(1u8, vec![t])).map(|_| ()).map_err(e2s)
        }
        FailKind::NonUtf8Path => {
            use std::os::unix::ffi::OsStringExt;
            let p = std::path::PathBuf::from(std::ffi::OsString::from_vec(vec![0x66, 0x6f, 0x80, 0xff]));
            b.arg(&(candid::Int::from(-3), p)).map(|_| ()).map_err(e2s)
        }
        FailKind::Phantom => b.arg(&(vec![1u8, 2], std::marker::PhantomData::<u8>)).map(|_| ()).map_err(e2s),
    }
}

fn run_stage(st: &mut TaskState, stage: &Stage, check_c03: bool) -> Out {
    let fp = memo_fingerprint();
    candid::verif::take_probes();
    let mut out = run_stage_(st, stage, check_c03);
    out.hooks = candid::verif::take_probes().into_iter().collect();
    out.memo_fp = fp;
    out
}

fn from_guard<T>(g: Guarded<Result<T, String>>) -> Result<T, Out> {
    match g {
        Guarded::Done(Ok(v)) => Ok(v),
        Guarded::Done(Err(e)) => Err(Out::new(Class::Err, e)),
        Guarded::Panicked(m) => Err(Out::new(Class::Panic, m)),
    }
}

fn run_stage_(st: &mut TaskState, stage: &Stage, check_c03: bool) -> Out {
    match stage {
        Stage::Ty(n) => {
            let d = match lookup(n) {
                Ok(d) => d,
                Err(o) => return o,
            };
            match guard(|| (d.ty)()) {
                Guarded::Done(_) => Out::new(Class::Ok, ""),
                Guarded::Panicked(m) => Out::new(Class::Panic, m),
            }
        }
        Stage::EnvClear => {
            candid::types::internal::env_clear();
            Out::new(Class::Ok, "")
        }
        Stage::ContainerAdd(n) => {
            let d = match lookup(n) {
                Ok(d) => d,
                Err(o) => return o,
            };
            match guard(|| {
                let mut c = TypeContainer::new();
                (d.container_add)(&mut c);
            }) {
                Guarded::Done(_) => Out::new(Class::Ok, ""),
                Guarded::Panicked(m) => Out::new(Class::Panic, m),
            }
        }
        Stage::SelfSubtype(n) => {
            let d = match lookup(n) {
                Ok(d) => d,
                Err(o) => return o,
            };
            match from_guard(guard(|| (d.self_subtype)())) {
                Ok(()) => Out::new(Class::Ok, ""),
                Err(o) => o,
            }
        }
        Stage::ToIdl { ty, vseed, size } => {
            let d = match lookup(ty) {
                Ok(d) => d,
                Err(o) => return o,
            };
            let v = gen_value(d, *vseed, *size);
            match from_guard(guard(|| (d.to_idl)(v.as_ref()))) {
                Ok(idl) => {
                    let mut o = Out::new(Class::Ok, "");
                    // the untyped image must denote the same abstract value
                    let got = crate::models::conv::from_idl(&idl);
                    let want = (d.av)(v.as_ref(), false);
                    if !same_modulo_labels(&got, &want) {
                        o.viol.push(("to-idl-value".into(), ty.clone(), format!("try_from_candid_type::<{ty}> gave {} for {}", got.brief(), want.brief())));
                    }
                    // not exported for the parity check: hash containers iterate in an
                    // instance-specific order, the comparison above used the same instance
                    o
                }
                Err(o) => o,
            }
        }
        Stage::NewBuilder { default } => {
            st.builder = Some(if *default { IDLBuilder::default() } else { IDLBuilder::new() });
            st.building.clear();
            st.builder_broken = false;
            st.first_bytes = None;
            st.err_prefix = None;
            Out::new(Class::Ok, "")
        }
        Stage::Arg { ty, vseed, size } => {
            let d = match lookup(ty) {
                Ok(d) => d,
                Err(o) => return o,
            };
            if st.builder_broken || st.builder.is_none() {
                return Out::new(Class::Skipped, "no usable builder");
            }
            let v = gen_value(d, *vseed, *size);
            let b = st.builder.as_mut().unwrap();
            match from_guard(guard(|| (d.arg)(b, v.as_ref()))) {
                Ok(()) => {
                    st.building.push(native_rec(d, v.as_ref()));
                    Out::new(Class::Ok, "")
                }
                Err(o) => {
                    st.builder_broken = true;
                    o
                }
            }
        }
        Stage::ValueArg { env, ty, val, loose } => {
            if st.builder_broken || st.builder.is_none() {
                return Out::new(Class::Skipped, "no usable builder");
            }
            let b = st.builder.as_mut().unwrap();
            let (tenv, tty, idl) = (to_env(env), to_type(ty), to_idl_loose(val, *loose));
            match from_guard(guard(|| b.value_arg_with_type(&idl, &tenv, &tty).map(|_| ()).map_err(e2s))) {
                Ok(()) => {
                    st.building.push(ArgRec::Untyped { env: env.clone(), ty: ty.clone(), val: val.clone() });
                    Out::new(Class::Ok, "")
                }
                Err(o) => {
                    st.builder_broken = true;
                    o
                }
            }
        }
        Stage::FailArg(k) => {
            if st.builder_broken || st.builder.is_none() {
                return Out::new(Class::Skipped, "no usable builder");
            }
            let b = st.builder.as_mut().unwrap();
            let r = from_guard(guard(|| fail_arg(b, k)));
            st.builder_broken = true;
            match r {
                Ok(()) => Out::new(Class::Ok, "failing argument unexpectedly encoded"),
                Err(o) => o,
            }
        }
        Stage::Serialize { .. } | Stage::SerializeToVec => {
            if st.builder_broken || st.builder.is_none() {
                return Out::new(Class::Skipped, "no usable builder");
            }
            let b = st.builder.as_mut().unwrap();
            let plan = match stage {
                Stage::Serialize { plan } => plan.clone(),
                _ => IoPlan::clean(),
            };
            let via_vec = matches!(stage, Stage::SerializeToVec);
            let mut w = SimWriter::new(plan.clone());
            let r: Guarded<Result<Vec<u8>, String>> = guard(|| {
                if via_vec {
                    b.serialize_to_vec().map_err(e2s)
                } else {
                    b.serialize(&mut w).map(|_| Vec::new()).map_err(e2s)
                }
            });
            let accepted = std::mem::take(&mut w.accepted);
            let mut out = match r {
                Guarded::Panicked(m) => Out::new(Class::Panic, m),
                Guarded::Done(Err(e)) => Out::new(Class::Err, e),
                Guarded::Done(Ok(v)) => {
                    let bytes = if via_vec { v } else { accepted.clone() };
                    let mut o = Out::new(Class::Ok, "");
                    if check_c03 {
                        o.viol.extend(check_message(&bytes, &st.building));
                        // repeatability: a second successful serialize yields the same bytes
                        if let Some(fb) = &st.first_bytes {
                            if *fb != bytes {
                                o.viol.push((
                                    "serialize-repeatable".into(),
                                    "second-serialize".into(),
                                    format!("second serialize on one builder produced {} bytes {}, the first produced {} bytes {}", bytes.len(), crate::engines::stream::hex(&bytes), fb.len(), crate::engines::stream::hex(fb)),
                                ));
                            }
                        }
                        // after a writer error: what the writer had accepted is a prefix of the message
                        if let Some(p) = &st.err_prefix {
                            if !bytes.starts_with(p) {
                                o.viol.push((
                                    "writer-error-leaves-prefix".into(),
                                    "retry-after-writer-error".into(),
                                    format!("bytes accepted before the writer error ({}) are not a prefix of the message ({})", crate::engines::stream::hex(p), crate::engines::stream::hex(&bytes)),
                                ));
                            }
                        }
                    }
                    if st.first_bytes.is_none() {
                        st.first_bytes = Some(bytes.clone());
                    }
                    let leaked: &'static [u8] = Box::leak(bytes.into_boxed_slice());
                    st.message = Some(leaked);
                    // the message now holds what was built (the builder keeps it for further serialize calls)
                    st.msg_args = st.building.clone();
                    o
                }
            };
            if out.class == Class::Err && !via_vec {
                // writer fault: remember what reached the writer
                let can_complete = plan.stop.is_none();
                if can_complete && check_c03 {
                    out.viol.push(("serialize-completes".into(), "serialize-under-short-writes".into(), format!("serialize failed although the writer never refused data: {}", out.note)));
                }
                st.err_prefix = Some(accepted);
            }
            out.fired = w.fired.clone();
            out
        }
        Stage::DropBuilder => {
            st.builder = None;
            st.building.clear();
            Out::new(Class::Ok, "")
        }
        Stage::EncodeOne { ty, vseed, size, macro_api } => {
            let d = match lookup(ty) {
                Ok(d) => d,
                Err(o) => return o,
            };
            let v = gen_value(d, *vseed, *size);
            let f = if *macro_api { d.encode_args1 } else { d.encode_one };
            match from_guard(guard(|| f(v.as_ref()).and_then(|a| f(v.as_ref()).map(|b| (a, b))))) {
                Ok((a, b)) => {
                    let mut o = Out::new(Class::Ok, "");
                    let rec = vec![native_rec(d, v.as_ref())];
                    if check_c03 {
                        if a != b {
                            o.viol.push(("encode-twice-identical".into(), ty.clone(), format!("encoding the same {ty} twice gave {} and {}", crate::engines::stream::hex(&a), crate::engines::stream::hex(&b))));
                        }
                        o.viol.extend(check_message(&a, &rec));
                    }
                    st.message = Some(Box::leak(a.into_boxed_slice()));
                    st.msg_args = rec;
                    o
                }
                Err(o) => o,
            }
        }
        Stage::ToBytesWithTypes { env, tys, vals, loose } => {
            let tenv = to_env(env);
            let ttys: Vec<_> = tys.iter().map(to_type).collect();
            let args = candid::IDLArgs::new(&vals.iter().enumerate().map(|(i, v)| to_idl_loose(v, if *loose == 0 { 0 } else { loose.wrapping_add(i as u64) | 1 })).collect::<Vec<_>>());
            match from_guard(guard(|| args.to_bytes_with_types(&tenv, &ttys).map_err(e2s))) {
                Ok(bytes) => {
                    let mut o = Out::new(Class::Ok, "");
                    let rec: Vec<ArgRec> = tys.iter().zip(vals.iter()).map(|(t, v)| ArgRec::Untyped { env: env.clone(), ty: t.clone(), val: v.clone() }).collect();
                    if check_c03 {
                        o.viol.extend(check_message(&bytes, &rec));
                    }
                    st.message = Some(Box::leak(bytes.into_boxed_slice()));
                    st.msg_args = rec;
                    o
                }
                Err(o) => o,
            }
        }
        Stage::NewDecoder { truncate, quota } => {
            let msg = match st.message {
                Some(m) => m,
                None => return Out::new(Class::Skipped, "no message"),
            };
            let m: &'static [u8] = match truncate {
                Some(k) if *k < msg.len() => &msg[..*k],
                _ => msg,
            };
            st.decoder_cut = m.len() < msg.len() || quota.is_some();
            let mut cfg = DecoderConfig::new();
            if let Some(q) = quota {
                cfg.set_decoding_quota(*q);
            }
            st.next_get = 0;
            match from_guard(guard(|| IDLDeserialize::new_with_config(m, &cfg).map_err(e2s))) {
                Ok(d) => {
                    st.decoder = Some(d);
                    Out::new(Class::Ok, "")
                }
                Err(o) => {
                    st.decoder = None;
                    o
                }
            }
        }
        Stage::Get => {
            let de = match st.decoder.as_mut() {
                Some(d) => d,
                None => return Out::new(Class::Skipped, "no decoder"),
            };
            let (d, orig) = match st.msg_args.get(st.next_get) {
                Some(ArgRec::Native { ty, canon, .. }) => (*ty, canon.clone()),
                _ => return Out::new(Class::Skipped, "no native argument left"),
            };
            st.next_get += 1;
            match from_guard(guard(|| (d.get)(de))) {
                Ok(v) => {
                    let got = (d.av)(v.as_ref(), true);
                    let mut o = Out::new(Class::Ok, "");
                    if got != orig {
                        o.viol.push(("roundtrip-value".into(), d.name.clone(), format!("{}: decoded {} but {} was encoded", d.name, got.brief(), orig.brief())));
                    }
                    o.av = Some(got);
                    o
                }
                Err(mut o) => {
                    st.decoder = None;
                    if !st.decoder_cut {
                        o.viol.push(("roundtrip-decodes".into(), d.name.clone(), format!("{}: decoding its own encoding failed: {}", d.name, o.note)));
                    }
                    o
                }
            }
        }
        Stage::GetWrong(n) => {
            let de = match st.decoder.as_mut() {
                Some(d) => d,
                None => return Out::new(Class::Skipped, "no decoder"),
            };
            let d = match lookup(n) {
                Ok(d) => d,
                Err(o) => return o,
            };
            let r = from_guard(guard(|| (d.get)(de)));
            st.decoder = None; // abandoned either way
            match r {
                Ok(_) => Out::new(Class::Ok, "decoded at another type"),
                Err(o) => o,
            }
        }
        Stage::Done => {
            let de = match st.decoder.as_mut() {
                Some(d) => d,
                None => return Out::new(Class::Skipped, "no decoder"),
            };
            let all_read = st.next_get >= st.msg_args.len();
            let r = from_guard(guard(|| de.done().map_err(e2s)));
            st.decoder = None;
            match r {
                Ok(()) => Out::new(Class::Ok, ""),
                Err(mut o) => {
                    if !st.decoder_cut && all_read {
                        o.viol.push(("roundtrip-no-unread-input".into(), "done".into(), format!("done() after reading every argument failed: {}", o.note)));
                    }
                    o
                }
            }
        }
        Stage::DecodeOne { macro_api } => {
            let msg = match st.message {
                Some(m) => m,
                None => return Out::new(Class::Skipped, "no message"),
            };
            let (d, orig) = match st.msg_args.as_slice() {
                [ArgRec::Native { ty, canon, .. }] => (*ty, canon.clone()),
                _ => return Out::new(Class::Skipped, "not a single native argument"),
            };
            let f = if *macro_api { d.decode_macro } else { d.decode_one };
            match from_guard(guard(|| f(msg))) {
                Ok(v) => {
                    let got = (d.av)(v.as_ref(), true);
                    let mut o = Out::new(Class::Ok, "");
                    if got != orig {
                        o.viol.push(("roundtrip-value".into(), d.name.clone(), format!("{}: decoded {} but {} was encoded", d.name, got.brief(), orig.brief())));
                    }
                    o.av = Some(got);
                    o
                }
                Err(mut o) => {
                    o.viol.push(("roundtrip-decodes".into(), d.name.clone(), format!("{}: decoding its own encoding failed: {}", d.name, o.note)));
                    o
                }
            }
        }
    }
}

/// try_from_candid_type goes through untyped decoding, which keeps field names
/// where the type has them: compare on ids only (AV already is id based).
fn same_modulo_labels(a: &AV, b: &AV) -> bool {
    a == b
}

// ---------------------------------------------------------------- worlds

enum Cmd {
    Run { task: usize, stage: usize },
    Stop,
}

fn world_thread(tasks: Vec<Option<Task>>, check_c03: bool, rx: mpsc::Receiver<Cmd>, tx: mpsc::Sender<Out>) {
    let mut states: Vec<TaskState> = (0..tasks.len()).map(|_| TaskState::default()).collect();
    while let Ok(cmd) = rx.recv() {
        match cmd {
            Cmd::Stop => break,
            Cmd::Run { task, stage } => {
                let out = match tasks.get(task).and_then(|t| t.as_ref()).and_then(|t| t.stages.get(stage)) {
                    Some(s) => run_stage(&mut states[task], s, check_c03),
                    None => Out::new(Class::Skipped, "no such stage"),
                };
                if tx.send(out).is_err() {
                    break;
                }
            }
        }
    }
    // decoders borrow leaked bytes; dropping states here is fine
}

struct World {
    tx: mpsc::Sender<Cmd>,
    rx: mpsc::Receiver<Out>,
    handle: std::thread::JoinHandle<()>,
}

fn spawn_world(stack_kib: usize, tasks: Vec<Option<Task>>, check_c03: bool) -> Result<World, String> {
    let (tx, wrx) = mpsc::channel::<Cmd>();
    let (wtx, rx) = mpsc::channel::<Out>();
    let handle = std::thread::Builder::new().stack_size(stack_kib * 1024).spawn(move || world_thread(tasks, check_c03, wrx, wtx)).map_err(|e| format!("spawn world: {e}"))?;
    Ok(World { tx, rx, handle })
}

/// Run the given schedule over the given tasks; returns per task the outcomes of its stages.
fn run_schedule(sc: &Sc, only_task: Option<usize>, check_c03: bool) -> Result<Vec<Vec<Out>>, String> {
    let nworlds = sc.stacks_kib.len().max(1);
    let mut worlds = Vec::new();
    for w in 0..nworlds {
        let tasks: Vec<Option<Task>> = sc.tasks.iter().enumerate().map(|(i, t)| if t.world % nworlds == w && only_task.map(|o| o == i).unwrap_or(true) { Some(t.clone()) } else { None }).collect();
        worlds.push(spawn_world(*sc.stacks_kib.get(w).unwrap_or(&1024), tasks, check_c03)?);
    }
    let mut next: Vec<usize> = vec![0; sc.tasks.len()];
    let mut outs: Vec<Vec<Out>> = vec![Vec::new(); sc.tasks.len()];
    for &t in &sc.schedule {
        if t >= sc.tasks.len() || only_task.map(|o| o != t).unwrap_or(false) {
            continue;
        }
        let s = next[t];
        if s >= sc.tasks[t].stages.len() {
            continue;
        }
        next[t] += 1;
        let w = &worlds[sc.tasks[t].world % nworlds];
        w.tx.send(Cmd::Run { task: t, stage: s }).map_err(|_| "world thread is gone".to_string())?;
        let out = w.rx.recv().map_err(|_| "world thread died".to_string())?;
        outs[t].push(out);
    }
    for w in worlds {
        let _ = w.tx.send(Cmd::Stop);
        let _ = w.handle.join();
    }
    Ok(outs)
}

fn stage_name(s: &Stage) -> String {
    match s {
        Stage::Ty(n) => format!("ty<{n}>"),
        Stage::EnvClear => "env_clear".into(),
        Stage::ContainerAdd(n) => format!("container_add<{n}>"),
        Stage::SelfSubtype(n) => format!("self_subtype<{n}>"),
        Stage::ToIdl { ty, .. } => format!("try_from_candid_type<{ty}>"),
        Stage::NewBuilder { default } => if *default { "IDLBuilder::default".into() } else { "IDLBuilder::new".into() },
        Stage::Arg { ty, .. } => format!("arg<{ty}>"),
        Stage::ValueArg { ty, .. } => format!("value_arg_with_type<{}>", show_type(ty)),
        Stage::FailArg(k) => format!("failing_arg<{k:?}>"),
        Stage::Serialize { plan } => format!("serialize(writer:{} steps,{:?})", plan.steps.len(), plan.stop),
        Stage::SerializeToVec => "serialize_to_vec".into(),
        Stage::DropBuilder => "drop_builder".into(),
        Stage::EncodeOne { ty, macro_api, .. } => format!("{}<{ty}>", if *macro_api { "Encode!" } else { "encode_one" }),
        Stage::ToBytesWithTypes { tys, .. } => format!("to_bytes_with_types<{}>", tys.iter().map(show_type).collect::<Vec<_>>().join(",")),
        Stage::NewDecoder { truncate, quota } => format!("IDLDeserialize::new(truncate={truncate:?},quota={quota:?})"),
        Stage::Get => "get_value".into(),
        Stage::GetWrong(n) => format!("get_value_wrong<{n}>"),
        Stage::Done => "done".into(),
        Stage::DecodeOne { macro_api } => if *macro_api { "Decode!".into() } else { "decode_one".into() },
    }
}
fn stage_kind(s: &Stage) -> &'static str {
    match s {
        Stage::Ty(_) => "ty",
        Stage::EnvClear => "env_clear",
        Stage::ContainerAdd(_) => "container_add",
        Stage::SelfSubtype(_) => "self_subtype",
        Stage::ToIdl { .. } => "try_from_candid_type",
        Stage::NewBuilder { default: true } => "builder_default",
        Stage::NewBuilder { .. } => "builder_new",
        Stage::Arg { .. } => "arg",
        Stage::ValueArg { .. } => "value_arg_with_type",
        Stage::FailArg(_) => "failing_arg",
        Stage::Serialize { .. } => "serialize_writer",
        Stage::SerializeToVec => "serialize_to_vec",
        Stage::DropBuilder => "drop_builder",
        Stage::EncodeOne { .. } => "encode_one_shot",
        Stage::ToBytesWithTypes { .. } => "to_bytes_with_types",
        Stage::NewDecoder { .. } => "decoder_new",
        Stage::Get => "get_value",
        Stage::GetWrong(_) => "get_value_wrong_type",
        Stage::Done => "done",
        Stage::DecodeOne { .. } => "decode_one_shot",
    }
}

pub fn execute(sc: &Sc, ctx: &mut Ctx) -> Result<(), String> {
    let is_c03 = sc.prop == "C03";
    for k in [
        "two_builders_alive_on_one_thread",
        "derivation_between_new_and_arg",
        "env_clear_inside_a_protocol",
        "failed_arg_then_other_task_encodes",
        "writer_error_then_retry",
        "second_serialize_on_one_builder",
        "builder_default_used",
        "decode_failed_mid_value",
        "memo_had_knot_entry_at_arg",
    ] {
        ctx.stats.declare_probe(k);
    }
    // interleaved execution
    let outs = run_schedule(sc, None, is_c03)?;
    // reference executions: each task alone, on a fresh thread
    let mut alone: Vec<Vec<Out>> = Vec::new();
    for t in 0..sc.tasks.len() {
        let mut solo = sc.clone();
        solo.stacks_kib = vec![8192];
        for tk in solo.tasks.iter_mut() {
            tk.world = 0;
        }
        let o = run_schedule(&solo, Some(t), is_c03)?;
        alone.push(o.into_iter().nth(t).unwrap_or_default());
    }
    // event log, stats, probes (replay the schedule to keep the global order)
    let mut next = vec![0usize; sc.tasks.len()];
    let mut live_builders: BTreeMap<usize, Vec<usize>> = BTreeMap::new(); // world -> tasks with a live builder
    let mut task_between_new_and_arg: BTreeMap<usize, bool> = BTreeMap::new();
    let mut failed_arg_seen = false;
    for &t in &sc.schedule {
        if t >= sc.tasks.len() {
            continue;
        }
        let s = next[t];
        if s >= sc.tasks[t].stages.len() {
            continue;
        }
        next[t] += 1;
        let stage = &sc.tasks[t].stages[s];
        let w = sc.tasks[t].world % sc.stacks_kib.len().max(1);
        let o = &outs[t][s];
        ctx.ev(&format!("w{w} t{t}.{s} {} -> {:?}", stage_name(stage), o.class));
        ctx.stats.op(stage_kind(stage));
        ctx.stats.state(fnv1a(format!("{}|{}|{}", o.memo_fp, stage_kind(stage), match stage {
            Stage::Arg { ty, .. } | Stage::Ty(ty) | Stage::EncodeOne { ty, .. } => ty.as_str(),
            _ => "",
        }).as_bytes()));
        for (k, n) in [("short_write", o.fired.short), ("eintr", o.fired.intr), ("write_zero", o.fired.eof), ("writer_hard_error", o.fired.error)] {
            ctx.stats.fault(k, n);
        }
        for (k, n) in &o.hooks {
            ctx.stats.probe_n(&format!("hook:{k}"), *n);
        }
        // history probes
        let lb = live_builders.entry(w).or_default();
        match stage {
            Stage::NewBuilder { default } => {
                if !lb.contains(&t) {
                    lb.push(t);
                }
                task_between_new_and_arg.insert(t, true);
                if *default {
                    ctx.stats.probe("builder_default_used");
                }
                ctx.stats.fault("memo_cleared_by_other_builder", if !default && lb.len() > 1 { 1 } else { 0 });
            }
            Stage::Arg { .. } | Stage::ValueArg { .. } => {
                if lb.iter().any(|x| *x != t) {
                    ctx.stats.probe("two_builders_alive_on_one_thread");
                }
                task_between_new_and_arg.insert(t, false);
                if failed_arg_seen {
                    ctx.stats.probe("failed_arg_then_other_task_encodes");
                }
                if o.memo_fp != 0 && memo_fp_has_knot(o.memo_fp) {
                    ctx.stats.probe("memo_had_knot_entry_at_arg");
                }
            }
            Stage::Ty(_) | Stage::ContainerAdd(_) | Stage::SelfSubtype(_) | Stage::ToIdl { .. } | Stage::EncodeOne { .. } => {
                // does some *other* task on this world sit between new() and arg()?
                if sc.tasks.iter().enumerate().any(|(i, tk)| i != t && tk.world % sc.stacks_kib.len().max(1) == w && task_between_new_and_arg.get(&i) == Some(&true)) {
                    ctx.stats.probe("derivation_between_new_and_arg");
                }
            }
            Stage::EnvClear => {
                ctx.stats.fault("env_clear", 1);
                if !lb.is_empty() {
                    ctx.stats.probe("env_clear_inside_a_protocol");
                }
            }
            Stage::FailArg(_) => {
                ctx.stats.fault("arg_failed_mid_value", (o.class == Class::Err) as u64);
                failed_arg_seen = true;
                lb.retain(|x| *x != t);
            }
            Stage::Serialize { .. } | Stage::SerializeToVec => {
                if o.class == Class::Err {
                    ctx.stats.fault("serialize_failed_on_writer_error", 1);
                }
                if s > 0 && sc.tasks[t].stages[..s].iter().rev().take_while(|x| !matches!(x, Stage::NewBuilder { .. })).any(|x| matches!(x, Stage::Serialize { .. } | Stage::SerializeToVec)) {
                    let prev_failed = (0..s).rev().find(|i| matches!(sc.tasks[t].stages[*i], Stage::Serialize { .. } | Stage::SerializeToVec)).map(|i| outs[t][i].class == Class::Err).unwrap_or(false);
                    if prev_failed {
                        ctx.stats.probe("writer_error_then_retry");
                    } else {
                        ctx.stats.probe("second_serialize_on_one_builder");
                    }
                }
            }
            Stage::DropBuilder => lb.retain(|x| *x != t),
            Stage::NewDecoder { truncate, quota } => {
                ctx.stats.fault("message_truncated", truncate.is_some() as u64);
                ctx.stats.fault("decode_quota_abort_armed", quota.is_some() as u64);
            }
            Stage::Get | Stage::GetWrong(_) => {
                if o.class == Class::Err {
                    ctx.stats.probe("decode_failed_mid_value");
                    ctx.stats.fault("decode_failed_mid_value", 1);
                }
            }
            _ => {}
        }
    }
    if sc.tasks.len() > 1 {
        ctx.stats.nontrivial_runs += 1;
    }
    // ---- invariants
    for t in 0..sc.tasks.len() {
        // a decoder working on a cut message or under a quota: its outcomes depend on the message's
        // length / table size, which may legitimately differ between histories
        let mut cut_decoder = false;
        for (s, stage) in sc.tasks[t].stages.iter().enumerate() {
            if let Stage::NewDecoder { truncate, quota } = stage {
                cut_decoder = truncate.is_some() || quota.is_some();
            }
            let (Some(o), Some(a)) = (outs[t].get(s), alone[t].get(s)) else { continue };
            let desc = || {
                let hist: Vec<String> = history_before(sc, t, s);
                format!("task {t} stage {s} {} | earlier on the thread: [{}]", stage_name(stage), hist.join("; "))
            };
            // (a) violations found inside the stage itself (identity, RD)
            for (inv, key, detail) in o.viol.iter().chain(a.viol.iter()) {
                ctx.violate(inv, key, format!("{detail} | {}", desc()));
            }
            // (b) panics
            if o.class == Class::Panic || a.class == Class::Panic {
                let m = if o.class == Class::Panic { &o.note } else { &a.note };
                ctx.violate("no-panic", &format!("{}@{}", stage_kind(stage), panic_key(m)), format!("{} panicked: {m} | {}", stage_name(stage), desc()));
                continue;
            }
            // (c) parity with the reference execution of the task alone
            // Whether a writer that stops after k bytes cuts the message depends on the message's
            // length, and the length may legitimately differ between histories (the same Rust type
            // can get a different but equivalent table layout, ser.rs:23-25): no parity there.
            let length_dependent = matches!(stage, Stage::Serialize { plan } if plan.stop.is_some()) || (cut_decoder && matches!(stage, Stage::NewDecoder { .. } | Stage::Get | Stage::GetWrong(_) | Stage::Done));
            if sc.prop == "C01" && !length_dependent {
                if o.class != a.class {
                    if o.class == Class::Skipped || a.class == Class::Skipped {
                        continue; // consequence of an earlier difference, already reported there
                    }
                    ctx.violate(
                        "outcome-independent-of-history",
                        &format!("{}:{:?}-vs-{:?}", stage_kind(stage), o.class, a.class),
                        format!("{} returned {:?} ({}) in this history but {:?} ({}) when the task runs alone on a fresh thread | {}", stage_name(stage), o.class, o.note, a.class, a.note, desc()),
                    );
                } else if o.av != a.av {
                    ctx.violate(
                        "value-independent-of-history",
                        stage_kind(stage),
                        format!("{} decoded {:?} in this history but {:?} alone | {}", stage_name(stage), o.av.as_ref().map(|x| x.brief()), a.av.as_ref().map(|x| x.brief()), desc()),
                    );
                }
            }
        }
    }
    if ctx.stats.samples.len() < 6 {
        let hist: Vec<String> = history_before(sc, usize::MAX, usize::MAX).into_iter().take(14).collect();
        ctx.stats.sample(serde_json::json!({"worlds": sc.stacks_kib, "history": hist}));
    }
    Ok(())
}

fn memo_fp_has_knot(mut fp: u64) -> bool {
    while fp > 0 {
        if fp % 3 == 2 {
            return true;
        }
        fp /= 3;
    }
    false
}

/// the global history up to (task t, stage s) on the same world, as readable op names
fn history_before(sc: &Sc, t: usize, s: usize) -> Vec<String> {
    let mut next = vec![0usize; sc.tasks.len()];
    let nw = sc.stacks_kib.len().max(1);
    let mut out = Vec::new();
    for &x in &sc.schedule {
        if x >= sc.tasks.len() {
            continue;
        }
        let i = next[x];
        if i >= sc.tasks[x].stages.len() {
            continue;
        }
        next[x] += 1;
        if x == t && i == s {
            break;
        }
        if t == usize::MAX || sc.tasks[x].world % nw == sc.tasks[t].world % nw {
            out.push(format!("t{x}:{}", stage_name(&sc.tasks[x].stages[i])));
        }
    }
    out
}

// ---------------------------------------------------------------- generation

const REC: [&str; 26] = [
    "List", "MutA", "MutB", "Rose", "Expr", "Vec<List>", "Option<MutA>", "Vec<MutB>", "Vec<Rose>", "Option<Box<Expr>>", "Vec<MutA>", "(List,Rose)", "BTreeMap<Int,List>", "BTreeMap<String,Rose>", "Option<List>", "Option<Rose>", "Vec<Expr>", "Option<Expr>",
    "G<S1>", "S2", "E1", "Vec<G<u8>>", "Wide", "Vec<Box<u64>>", "DupA", "DupB",
];

fn pick_type(rng: &mut Rng, rec_bias: u64) -> String {
    if rng.below(100) < rec_bias {
        let n = rng.pick(&REC);
        if corpus::find(n).is_some() {
            return n.to_string();
        }
    }
    let c = corpus::corpus();
    c[rng.usize(c.len())].name.clone()
}

fn gen_untyped(rng: &mut Rng) -> Option<(SEnv, SType, AV)> {
    if rng.chance(1, 10) {
        // a type needing more than 64 (and sometimes more than 127) type-table entries
        let n = rng.range(60, 140) as usize;
        let mut t = SType::Prim(Prim::Nat8);
        for _ in 0..n {
            t = if rng.chance(1, 8) { SType::vec(t) } else { SType::opt(t) };
        }
        let env = SEnv::new();
        let vg = ValGen::new(&env, 64);
        let mut budget = rng.range(1, 200) as isize;
        let v = vg.gen(rng, &t, &mut budget)?;
        return Some((env, t, v));
    }
    let mut k = TyKnobs::draw(rng);
    k.allow_empty = false;
    let env = gen_env(rng, &k);
    let vg = ValGen::new(&env, 140);
    for _ in 0..6 {
        let t = if !env.0.is_empty() && rng.chance(1, 2) { SType::Name(rng.pick(&env.0.keys().cloned().collect::<Vec<_>>()).clone()) } else { gen_data_type(rng, &k, &env) };
        if vg.inhabited(&t) {
            let mut budget = rng.range(1, 40) as isize;
            if let Some(v) = vg.gen(rng, &t, &mut budget) {
                return Some((env, t, v));
            }
        }
    }
    None
}

fn protocol_task(rng: &mut Rng, fl: &mut Rng, world: usize, c03: bool, rec_bias: u64) -> Task {
    let mut st = Vec::new();
    st.push(Stage::NewBuilder { default: rng.chance(1, 6) });
    let nargs = rng.range(1, 3);
    let mut native_only = true;
    for _ in 0..nargs {
        if rng.chance(1, 5) {
            st.push(match rng.below(4) {
                0 => Stage::Ty(pick_type(rng, rec_bias)),
                1 => Stage::SelfSubtype(pick_type(rng, rec_bias)),
                2 => Stage::ContainerAdd(pick_type(rng, rec_bias)),
                _ => Stage::EnvClear,
            });
        }
        if c03 && rng.chance(1, 4) {
            if let Some((env, ty, val)) = gen_untyped(rng) {
                st.push(Stage::ValueArg { env, ty, val, loose: if rng.chance(1, 3) { rng.next_u64() | 1 } else { 0 } });
                native_only = false;
                continue;
            }
        }
        st.push(Stage::Arg { ty: pick_type(rng, rec_bias), vseed: rng.next_u64(), size: rng.range(0, 12) as usize });
    }
    // serialize, possibly under writer faults, possibly repeated
    match fl.below(6) {
        0 | 1 => st.push(Stage::SerializeToVec),
        2 => st.push(Stage::Serialize { plan: IoPlan::clean() }),
        3 => {
            st.push(Stage::Serialize { plan: IoPlan::random(fl, 60, false) });
        }
        4 => {
            // writer error, then retry on the same builder
            st.push(Stage::Serialize { plan: IoPlan::random(fl, 40, true) });
            st.push(Stage::SerializeToVec);
        }
        _ => {
            st.push(Stage::SerializeToVec);
            st.push(if fl.chance(1, 2) { Stage::SerializeToVec } else { Stage::Serialize { plan: IoPlan::random(fl, 60, false) } });
        }
    }
    if native_only {
        st.push(Stage::NewDecoder { truncate: None, quota: None });
        for _ in 0..nargs {
            if rng.chance(1, 8) {
                st.push(Stage::EnvClear);
            }
            st.push(Stage::Get);
        }
        st.push(Stage::Done);
    }
    Task { world, stages: st }
}

fn other_task(rng: &mut Rng, fl: &mut Rng, world: usize, c03: bool, rec_bias: u64) -> Task {
    let mut st = Vec::new();
    match rng.below(10) {
        0..=2 => {
            // one-shot encode / decode
            st.push(Stage::EncodeOne { ty: pick_type(rng, rec_bias), vseed: rng.next_u64(), size: rng.range(0, 12) as usize, macro_api: rng.chance(1, 2) });
            st.push(Stage::DecodeOne { macro_api: rng.chance(1, 2) });
        }
        3 | 4 => {
            for _ in 0..rng.range(1, 3) {
                st.push(match rng.below(5) {
                    0 => Stage::Ty(pick_type(rng, rec_bias)),
                    1 => Stage::SelfSubtype(pick_type(rng, rec_bias)),
                    2 => Stage::ContainerAdd(pick_type(rng, rec_bias)),
                    3 => Stage::ToIdl { ty: pick_type(rng, rec_bias), vseed: rng.next_u64(), size: rng.range(0, 8) as usize },
                    _ => Stage::EnvClear,
                });
            }
        }
        5 => {
            // a builder whose argument fails mid-value, then abandoned
            st.push(Stage::NewBuilder { default: false });
            if rng.chance(1, 2) {
                st.push(Stage::Arg { ty: pick_type(rng, rec_bias), vseed: rng.next_u64(), size: 4 });
            }
            st.push(Stage::FailArg(match fl.below(4) {
                0 => FailKind::BorrowedRefCell,
                1 => FailKind::PreEpochTime,
                2 => FailKind::NonUtf8Path,
                _ => FailKind::Phantom,
            }));
        }
        6 => {
            // decode that fails mid-value: truncated message or tiny quota
            st.push(Stage::EncodeOne { ty: pick_type(rng, rec_bias), vseed: rng.next_u64(), size: rng.range(2, 12) as usize, macro_api: true });
            if fl.chance(1, 2) {
                st.push(Stage::NewDecoder { truncate: Some(fl.range(4, 40) as usize), quota: None });
            } else {
                st.push(Stage::NewDecoder { truncate: None, quota: Some(fl.range(0, 30) as usize) });
            }
            st.push(Stage::Get);
        }
        7 => {
            // decode at a wrong type
            st.push(Stage::EncodeOne { ty: pick_type(rng, rec_bias), vseed: rng.next_u64(), size: rng.range(0, 10) as usize, macro_api: false });
            st.push(Stage::NewDecoder { truncate: None, quota: None });
            st.push(Stage::GetWrong(pick_type(rng, rec_bias)));
        }
        8 if c03 => {
            // typed untyped one-shot
            let n = rng.range(1, 3);
            let mut tys = Vec::new();
            let mut vals = Vec::new();
            let mut env = SEnv::new();
            if let Some((e, t, v)) = gen_untyped(rng) {
                env = e;
                tys.push(t);
                vals.push(v);
                // further arguments over the same environment
                let vg = ValGen::new(&env, 140);
                let k = TyKnobs::draw(rng);
                for _ in 1..n {
                    let t = gen_data_type(rng, &k, &env);
                    if vg.inhabited(&t) && !env.mentions(&t, Prim::Empty) {
                        let mut b = 20isize;
                        if let Some(v) = vg.gen(rng, &t, &mut b) {
                            tys.push(t);
                            vals.push(v);
                        }
                    }
                }
            }
            if !tys.is_empty() {
                st.push(Stage::ToBytesWithTypes { env, tys, vals, loose: if rng.chance(1, 3) { rng.next_u64() | 1 } else { 0 } });
            } else {
                st.push(Stage::EnvClear);
            }
        }
        _ => {
            // abandoned builder: new, arg, never serialised
            st.push(Stage::NewBuilder { default: rng.chance(1, 5) });
            st.push(Stage::Arg { ty: pick_type(rng, rec_bias), vseed: rng.next_u64(), size: rng.range(0, 8) as usize });
            if rng.chance(1, 2) {
                st.push(Stage::DropBuilder);
            }
        }
    }
    Task { world, stages: st }
}

pub fn generate(prop: &str, tier: Tier, seed: u64, run: u64) -> Sc {
    let rng = Rng::new(mix(seed, &[prop, "memo"], run));
    let mut knobs = rng.split("knobs");
    let mut wl = rng.split("workload");
    let mut fl = rng.split("faults");
    let mut sched = rng.split("schedule");
    let c03 = prop == "C03";
    let nworlds = match knobs.below(10) {
        0..=5 => 1,
        6..=8 => 2,
        _ => 3,
    };
    let stacks_kib: Vec<usize> = (0..nworlds).map(|_| *knobs.pick(&[256usize, 512, 1024, 8192])).collect();
    let rec_bias = *knobs.pick(&[20u64, 50, 80]);
    // thorough: longer histories (more tasks sharing the threads)
    let ntasks = knobs.range(2, if tier == Tier::Thorough { 9 } else { 5 }) as usize;
    let mut tasks = Vec::new();
    for i in 0..ntasks {
        let world = if nworlds == 1 { 0 } else { knobs.usize(nworlds) };
        // at least two protocol tasks so that builders overlap
        if i < 2 || wl.chance(1, 2) {
            tasks.push(protocol_task(&mut wl, &mut fl, world, c03, rec_bias));
        } else {
            tasks.push(other_task(&mut wl, &mut fl, world, c03, rec_bias));
        }
    }
    // very deep types (large type tables) only on roomy stacks: neither the encoder's table
    // construction nor the harness's own recursive helpers are what the small stacks are for
    let mut stacks_kib = stacks_kib;
    for t in &tasks {
        let deep = t.stages.iter().any(|s| match s {
            Stage::ValueArg { ty, .. } => ty.nodes() > 40,
            Stage::ToBytesWithTypes { tys, .. } => tys.iter().any(|t| t.nodes() > 40),
            _ => false,
        });
        if deep {
            let w = t.world % stacks_kib.len();
            stacks_kib[w] = 8192;
        }
    }
    // recovery probe: one more plain round trip at the very end
    tasks.push(Task {
        world: 0,
        stages: vec![Stage::EncodeOne { ty: pick_type(&mut wl, rec_bias), vseed: wl.next_u64(), size: 6, macro_api: true }, Stage::DecodeOne { macro_api: true }],
    });
    // interleaving
    let style = sched.below(4);
    let mut remaining: Vec<usize> = tasks.iter().map(|t| t.stages.len()).collect();
    let last = tasks.len() - 1;
    let mut schedule = Vec::new();
    let mut cur = 0usize;
    loop {
        let live: Vec<usize> = (0..last).filter(|i| remaining[*i] > 0).collect();
        if live.is_empty() {
            break;
        }
        let t = match style {
            0 => live[0],                         // sequential
            1 => *sched.pick(&live),              // uniform
            2 => {
                // bursts: stay on one task with probability 2/3
                if live.contains(&cur) && sched.chance(2, 3) {
                    cur
                } else {
                    *sched.pick(&live)
                }
            }
            _ => {
                // tight alternation
                let pos = live.iter().position(|x| *x > cur).unwrap_or(0);
                live[pos]
            }
        };
        cur = t;
        remaining[t] -= 1;
        schedule.push(t);
    }
    for _ in 0..tasks[last].stages.len() {
        schedule.push(last);
    }
    Sc { prop: prop.to_string(), stacks_kib, tasks, schedule }
}

pub fn size(sc: &Sc) -> usize {
    sc.tasks
        .iter()
        .map(|t| {
            t.stages
                .iter()
                .map(|s| match s {
                    Stage::Arg { size, .. } | Stage::EncodeOne { size, .. } | Stage::ToIdl { size, .. } => 2 + size,
                    Stage::Serialize { plan } => 2 + plan.steps.len() + plan.stop.is_some() as usize,
                    Stage::ValueArg { ty, val, env, .. } => 2 + ty.nodes() + val.nodes() + env.0.values().map(|t| t.nodes()).sum::<usize>(),
                    Stage::ToBytesWithTypes { tys, vals, env, .. } => 2 + tys.iter().map(|t| t.nodes()).sum::<usize>() + vals.iter().map(|v| v.nodes()).sum::<usize>() + env.0.values().map(|t| t.nodes()).sum::<usize>(),
                    _ => 2,
                })
                .sum::<usize>()
        })
        .sum::<usize>()
        + sc.stacks_kib.len()
}

pub fn shrink(sc: &Sc) -> Vec<Sc> {
    let mut out = Vec::new();
    // drop a whole task (keep indices stable by emptying it)
    for t in 0..sc.tasks.len() {
        if !sc.tasks[t].stages.is_empty() {
            let mut s = sc.clone();
            s.tasks[t].stages.clear();
            s.schedule.retain(|x| *x != t);
            out.push(s);
        }
    }
    // one world
    if sc.stacks_kib.len() > 1 {
        let mut s = sc.clone();
        s.stacks_kib = vec![8192];
        out.push(s);
    }
    // run tasks sequentially
    {
        let mut s = sc.clone();
        let mut sched = Vec::new();
        for (i, t) in sc.tasks.iter().enumerate() {
            for _ in 0..t.stages.len() {
                sched.push(i);
            }
        }
        if sched != sc.schedule {
            s.schedule = sched;
            out.push(s);
        }
    }
    // drop trailing stages of a task, then single stages
    for t in 0..sc.tasks.len() {
        let n = sc.tasks[t].stages.len();
        if n > 1 {
            let mut s = sc.clone();
            s.tasks[t].stages.truncate(n - 1);
            out.push(s);
            for i in 0..n {
                if matches!(sc.tasks[t].stages[i], Stage::Ty(_) | Stage::EnvClear | Stage::ContainerAdd(_) | Stage::SelfSubtype(_) | Stage::ToIdl { .. } | Stage::Arg { .. } | Stage::ValueArg { .. } | Stage::Get | Stage::Serialize { .. } | Stage::SerializeToVec) {
                    let mut s = sc.clone();
                    s.tasks[t].stages.remove(i);
                    // remove one schedule slot of that task (the last)
                    if let Some(p) = s.schedule.iter().rposition(|x| *x == t) {
                        s.schedule.remove(p);
                    }
                    out.push(s);
                }
            }
        }
    }
    // smaller values, clean writers
    for t in 0..sc.tasks.len() {
        for i in 0..sc.tasks[t].stages.len() {
            match &sc.tasks[t].stages[i] {
                Stage::Arg { ty, vseed, size } if *size > 0 => {
                    let mut s = sc.clone();
                    s.tasks[t].stages[i] = Stage::Arg { ty: ty.clone(), vseed: *vseed, size: size / 2 };
                    out.push(s);
                }
                Stage::EncodeOne { ty, vseed, size, macro_api } if *size > 0 => {
                    let mut s = sc.clone();
                    s.tasks[t].stages[i] = Stage::EncodeOne { ty: ty.clone(), vseed: *vseed, size: size / 2, macro_api: *macro_api };
                    out.push(s);
                }
                Stage::Serialize { plan } if !plan.is_clean() => {
                    let mut s = sc.clone();
                    s.tasks[t].stages[i] = Stage::Serialize { plan: IoPlan::clean() };
                    out.push(s);
                    if !plan.steps.is_empty() && plan.stop.is_some() {
                        let mut s = sc.clone();
                        s.tasks[t].stages[i] = Stage::Serialize { plan: IoPlan { steps: vec![], stop: plan.stop.clone() } };
                        out.push(s);
                    }
                }
                Stage::NewBuilder { default: true } => {
                    let mut s = sc.clone();
                    s.tasks[t].stages[i] = Stage::NewBuilder { default: false };
                    out.push(s);
                }
                _ => {}
            }
        }
    }
    out
}
