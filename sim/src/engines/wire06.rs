//! Engine C `wire-sim`, hostile mode (C06): honest in-flight messages damaged by
//! the channel, and Byzantine senders, against native and untyped receivers
//! under seeded stack size, quotas, table cap and error-message mode. Crashes
//! are contained per worker process; work is capped deterministically through
//! the tick hook; memory is measured by the counting allocator.

use crate::corpus;
use crate::kernel::alloc;
use crate::kernel::guard::{guard, on_thread, panic_key, Guarded};
use crate::kernel::report::{Ctx, Tier};
use crate::kernel::rng::{fnv1a, mix, Rng};
use crate::models::bigint::{leb_min, sleb_min, BigI, BigU};
use crate::models::conv::{to_env, to_idl, to_type};
use crate::models::gen::*;
use crate::models::stype::*;
use candid::de::{DecoderConfig, IDLDeserialize};
use candid::IDLArgs;
use serde::{Deserialize, Serialize};
use std::collections::BTreeMap;

/// 1M ticks: with the largest corpus element (about 1.1 KB) a vector cannot grow past the allocator's
/// 2 GiB single-request ceiling before the cap stops the run, so an unmetered bomb ends as
/// "inconclusive" instead of as an allocation abort
pub const TICK_CAP: u64 = 1_000_000;
/// ticks <= TICK_A * quota + TICK_B * len + TICK_C when a decoding quota is set
/// (calibrated on the unchanged tree: largest observed ticks/(quota+len+1) is below 1.5; x8 and more)
pub const TICK_A: f64 = 16.0;
pub const TICK_B: f64 = 64.0;
pub const TICK_C: f64 = 20_000.0;
/// heap_peak <= HEAP_C + HEAP_A * len + HEAP_B * quota when a decoding quota is set.
/// serde's collection visitors pre-allocate min(size_hint, 1 MiB / size_of::<T>()) elements
/// from the (untrusted) length before the first element is read; hashbrown rounds that up
/// (observed: 4 MiB for HashSet<E2> from a 12-byte message with quota 46). Containers that are
/// *in progress* at the same time number at most min(len/2, quota/4) (recursive types), so the
/// honest bound has a large multiple; the constants below are >= 8x what that argument and the
/// measurements (evidence: heap_over_quota_plus_len, largest_single_allocation_bytes) give.
pub const HEAP_A: f64 = 2.0 * 1024.0 * 1024.0;
pub const HEAP_B: f64 = 256.0 * 1024.0;
pub const HEAP_C: f64 = 64.0 * 1024.0 * 1024.0;

#[derive(Serialize, Deserialize, Clone, Debug, PartialEq)]
pub enum Receiver {
    /// Decode!([cfg]; bytes, T)
    Native(String),
    /// IDLArgs::from_bytes_with_types_with_config at generated types
    Untyped { env: SEnv, tys: Vec<SType> },
    /// IDLArgs::from_bytes_with_config (no expected type)
    NoType,
    /// IDLDeserialize::new_with_config + done(): skips everything as reserved
    DoneOnly,
}

#[derive(Serialize, Deserialize, Clone, Debug, PartialEq)]
pub enum Base {
    Native { ty: String, vseed: u64, size: usize },
    Untyped { env: SEnv, tys: Vec<SType>, vals: Vec<AV> },
}

#[derive(Serialize, Deserialize, Clone, Debug, PartialEq)]
pub enum Damage {
    Truncate(usize),
    /// the last k bytes never arrive
    CutTail(usize),
    Flip { pos: usize, bit: u8 },
    Subst { pos: usize, byte: u8 },
    DeleteSpan { pos: usize, len: usize },
    DupSpan { pos: usize, len: usize },
    /// replace the tail from `at` by the tail of another in-flight message
    Splice { at: usize, other: Box<Base>, other_at: usize },
    /// the LEB128 number starting at pos is replaced by a huge one
    Inflate { pos: usize, to: u64 },
    /// insert n bytes
    Insert { pos: usize, bytes: String },
}

#[derive(Serialize, Deserialize, Clone, Debug, PartialEq)]
pub enum Byz {
    /// chain of `depth` opt (or vec) types; value nests as deep as `value_depth`
    DeepChain { vec: bool, depth: u32, value_depth: u32 },
    /// chain of `depth` table entries table_i = record {0 : table_{i+1}} (or variant); the last one is `record {}`
    DeepFields { variant: bool, depth: u32 },
    /// type T = record {0: T} (or variant), value bytes appended
    SelfRef { variant: bool, mutual: bool },
    /// vec of zero-sized elements with a huge count
    ZeroSized { elem: u8, count_log2: u8, nested: bool },
    /// type table with n entries
    TableLen(u64),
    /// declared argument count
    ArgCount(u64),
    /// record with declared field count / odd ids
    Fields { count: u64, ids: Vec<u64>, variant: bool },
    /// service with the given method names (raw bytes, hex)
    Methods { names: Vec<String>, non_func: bool },
    /// func with annotation count / bytes
    Annotations { count: u8, bytes: Vec<u8> },
    /// future opcode with a length
    Future { opcode: i64, len: u64, arg: bool },
    /// index = table length / negative non-primitive
    BadIndex(i64),
    /// nat/int value with n padding groups (or unterminated)
    LebPad { signed: bool, pad: u32, terminated: bool, as128: bool },
    /// text / blob whose length exceeds the input
    LenBeyond { blob: bool, len: u64 },
    /// principal / service / func reference with odd flag or length
    Reference { kind: u8, flag: u8, len: u64 },
    /// variant index = number of fields, bool byte 2, opt tag 2
    BadTag(u8),
    /// `vec <fixed-width primitive>` with a declared length whose byte count runs past the
    /// input, or past 2^64; `tail` bytes of elements follow
    PrimVec { elem: u8, len: u64, tail: u8 },
    /// type T = opt T (or vec T) and a value nested `value_depth` levels: beyond the 16-bit
    /// depth counter when the receiver runs on a very large stack
    MuNest { vec: bool, value_depth: u32 },
}

pub const PRIM_VEC: [(u8, &str, u64); 11] = [(0x7a, "Vec<u16>", 2), (0x79, "Vec<u32>", 4), (0x78, "Vec<u64>", 8), (0x76, "Vec<i16>", 2), (0x75, "Vec<i32>", 4), (0x74, "Vec<i64>", 8), (0x73, "Vec<f32>", 4), (0x72, "Vec<f64>", 8), (0x7e, "Vec<bool>", 1), (0x7b, "Vec<u8>", 1), (0x77, "Vec<i8>", 1)];
/// stack for the receivers of `MuNest` messages deeper than the 16-bit counter (address space; touched only as far as used)
pub const GIANT_STACK_KIB: usize = 2 << 20;

#[derive(Serialize, Deserialize, Clone, Debug, PartialEq)]
pub enum Msg {
    Honest { base: Base, damage: Vec<Damage> },
    Byzantine(Byz),
    Raw(String),
}

#[derive(Serialize, Deserialize, Clone, Debug, PartialEq)]
pub struct Cfg {
    pub decoding_quota: Option<usize>,
    pub skipping_quota: Option<usize>,
    pub max_type_len: Option<usize>,
    pub full_error: bool,
}

#[derive(Serialize, Deserialize, Clone, Debug, PartialEq)]
pub struct Sc {
    pub stack_kib: usize,
    pub receiver: Receiver,
    pub msg: Msg,
    /// channel damage applied after the message is built (any kind of message)
    #[serde(default)]
    pub post_damage: Vec<Damage>,
    pub cfg: Cfg,
}

pub fn runs_for(_prop: &str, tier: Tier) -> u64 {
    match tier {
        Tier::Quick => 65536,
        Tier::Thorough => 393216,
    }
}

// ---------------------------------------------------------------- message construction

fn leb(n: u64) -> Vec<u8> {
    leb_min(&BigU::from_u64(n))
}
fn sleb(n: i64) -> Vec<u8> {
    sleb_min(&BigI::from_i128(n as i128))
}

pub fn build_base(b: &Base) -> Option<Vec<u8>> {
    match b {
        Base::Native { ty, vseed, size } => {
            let d = corpus::find(ty)?;
            let mut r = Rng::new(*vseed);
            let v = (d.gen)(&mut r, *size);
            match guard(|| (d.encode_one)(v.as_ref())) {
                Guarded::Done(Ok(b)) => Some(b),
                _ => None,
            }
        }
        Base::Untyped { env, tys, vals } => {
            if !env_closed(env) || tys.iter().any(|t| !closed(env, t)) {
                return None;
            }
            let tenv = to_env(env);
            let tt: Vec<_> = tys.iter().map(to_type).collect();
            let args = IDLArgs::new(&vals.iter().map(to_idl).collect::<Vec<_>>());
            match guard(|| args.to_bytes_with_types(&tenv, &tt)) {
                Guarded::Done(Ok(b)) => Some(b),
                _ => None,
            }
        }
    }
}

fn apply_damage(mut m: Vec<u8>, d: &Damage) -> Vec<u8> {
    let n = m.len();
    match d {
        Damage::Truncate(k) => m.truncate(*k.min(&n)),
        Damage::CutTail(k) => m.truncate(n.saturating_sub(*k)),
        Damage::Flip { pos, bit } => {
            if n > 0 {
                m[pos % n] ^= 1 << (bit % 8);
            }
        }
        Damage::Subst { pos, byte } => {
            if n > 0 {
                m[pos % n] = *byte;
            }
        }
        Damage::DeleteSpan { pos, len } => {
            if n > 0 {
                let p = pos % n;
                let e = (p + len).min(n);
                m.drain(p..e);
            }
        }
        Damage::DupSpan { pos, len } => {
            if n > 0 {
                let p = pos % n;
                let e = (p + len).min(n);
                let span: Vec<u8> = m[p..e].to_vec();
                for (i, b) in span.into_iter().enumerate() {
                    m.insert(e + i, b);
                }
            }
        }
        Damage::Splice { at, other, other_at } => {
            if let Some(o) = build_base(other) {
                let a = if n == 0 { 0 } else { at % (n + 1) };
                let oa = if o.is_empty() { 0 } else { other_at % (o.len() + 1) };
                m.truncate(a);
                m.extend_from_slice(&o[oa..]);
            }
        }
        Damage::Inflate { pos, to } => {
            if n > 0 {
                let p = pos % n;
                // replace the LEB128 number that starts at p
                let mut e = p;
                while e < n && m[e] & 0x80 != 0 {
                    e += 1;
                }
                let e = (e + 1).min(n);
                let repl = leb(*to);
                m.splice(p..e, repl);
            }
        }
        Damage::Insert { pos, bytes } => {
            let p = if n == 0 { 0 } else { pos % (n + 1) };
            let ins = crate::engines::stream::unhex(bytes);
            for (i, b) in ins.into_iter().enumerate() {
                m.insert(p + i, b);
            }
        }
    }
    m
}

pub fn build_byz(b: &Byz) -> Vec<u8> {
    let mut m = b"DIDL".to_vec();
    match b {
        Byz::DeepChain { vec, depth, value_depth } => {
            let d = (*depth).max(1) as u64;
            m.extend(leb(d));
            for i in 0..d {
                m.push(if *vec { 0x6d } else { 0x6e });
                if i + 1 < d {
                    m.extend(sleb(i as i64 + 1));
                } else {
                    m.push(0x7f); // null
                }
            }
            m.extend([0x01, 0x00]);
            for _ in 0..*value_depth {
                m.push(0x01); // opt: some / vec: one element
            }
            m.push(0x00);
        }
        Byz::DeepFields { variant, depth } => {
            let d = (*depth).max(1) as u64;
            m.extend(leb(d));
            for i in 0..d {
                m.push(if *variant { 0x6b } else { 0x6c });
                if i + 1 < d {
                    m.push(0x01);
                    m.push(0x00);
                    m.extend(sleb(i as i64 + 1));
                } else if *variant {
                    m.extend([0x01, 0x00, 0x7f]);
                } else {
                    m.push(0x00);
                }
            }
            m.extend([0x01, 0x00]);
            if *variant {
                for _ in 0..d.min(64) {
                    m.push(0x00);
                }
            }
        }
        Byz::SelfRef { variant, mutual } => {
            let op = if *variant { 0x6b } else { 0x6c };
            if *mutual {
                m.extend([0x02, op, 0x01, 0x00, 0x01, op, 0x01, 0x00, 0x00, 0x01, 0x00]);
            } else {
                m.extend([0x01, op, 0x01, 0x00, 0x00, 0x01, 0x00]);
            }
            m.extend([0x00; 8]);
        }
        Byz::ZeroSized { elem, count_log2, nested } => {
            // table: 0: vec X ; X by `elem`
            let count = 1u64 << (*count_log2).min(63);
            match elem % 5 {
                0 => m.extend([0x01, 0x6d, 0x7f]),                    // vec null
                1 => m.extend([0x01, 0x6d, 0x70]),                    // vec reserved
                2 => m.extend([0x02, 0x6d, 0x01, 0x6c, 0x00]),        // vec record {}
                3 => m.extend([0x03, 0x6d, 0x01, 0x6c, 0x02, 0x00, 0x7f, 0x01, 0x02, 0x6c, 0x01, 0x00, 0x70]), // vec record {null; record{reserved}}
                _ => m.extend([0x02, 0x6d, 0x01, 0x6d, 0x7f]),        // vec vec null
            }
            m.extend([0x01, 0x00]);
            if *nested {
                m.extend(leb(3));
            }
            m.extend(leb(count));
            m.extend([0x00; 4]);
        }
        Byz::TableLen(n) => {
            m.extend(leb(*n));
            let real = (*n).min(20_000);
            for _ in 0..real {
                m.extend([0x6e, 0x7f]);
            }
            m.extend([0x01, 0x7f]);
        }
        Byz::ArgCount(n) => {
            m.push(0x00);
            m.extend(leb(*n));
            for _ in 0..(*n).min(64) {
                m.push(0x7f);
            }
        }
        Byz::Fields { count, ids, variant } => {
            m.extend([0x01, if *variant { 0x6b } else { 0x6c }]);
            m.extend(leb(*count));
            for id in ids {
                m.extend(leb(*id));
                m.push(0x7f);
            }
            m.extend([0x01, 0x00, 0x00]);
        }
        Byz::Methods { names, non_func } => {
            // 0: service, 1: func () -> ()
            m.extend([0x02, 0x69]);
            m.extend(leb(names.len() as u64));
            for n in names {
                let raw = crate::engines::stream::unhex(n);
                m.extend(leb(raw.len() as u64));
                m.extend(raw);
                m.extend(if *non_func { vec![0x7f] } else { vec![0x01] });
            }
            m.extend([0x6a, 0x00, 0x00, 0x00]);
            m.extend([0x01, 0x00, 0x01, 0x00]);
        }
        Byz::Annotations { count, bytes } => {
            m.extend([0x01, 0x6a, 0x00, 0x00, *count]);
            m.extend(bytes);
            m.extend([0x01, 0x00, 0x01, 0x01, 0x00, 0x01, 0x6d]);
        }
        Byz::Future { opcode, len, arg } => {
            m.push(0x01);
            m.extend(sleb(*opcode));
            m.extend(leb(*len));
            for _ in 0..(*len).min(32) {
                m.push(0x00);
            }
            if *arg {
                m.extend([0x01, 0x00]);
                m.extend(leb(*len));
                m.extend(leb(0));
                for _ in 0..(*len).min(32) {
                    m.push(0xAA);
                }
            } else {
                m.push(0x00);
            }
        }
        Byz::BadIndex(i) => {
            m.extend([0x01, 0x6e]);
            m.extend(sleb(*i));
            m.extend([0x01, 0x00, 0x00]);
        }
        Byz::LebPad { signed, pad, terminated, as128: _ } => {
            m.extend([0x00, 0x01, if *signed { 0x7c } else { 0x7d }]);
            m.push(0x85);
            for _ in 0..*pad {
                m.push(0x80);
            }
            if *terminated {
                m.push(0x00);
            }
        }
        Byz::LenBeyond { blob, len } => {
            if *blob {
                m.extend([0x01, 0x6d, 0x7b, 0x01, 0x00]);
            } else {
                m.extend([0x00, 0x01, 0x71]);
            }
            m.extend(leb(*len));
            m.extend(b"abc");
        }
        Byz::Reference { kind, flag, len } => {
            match kind % 3 {
                0 => m.extend([0x00, 0x01, 0x68]),
                1 => m.extend([0x01, 0x69, 0x00, 0x01, 0x00]),
                _ => {
                    m.extend([0x01, 0x6a, 0x00, 0x00, 0x00, 0x01, 0x00]);
                    m.push(0x01);
                }
            }
            m.push(*flag);
            m.extend(leb(*len));
            for _ in 0..(*len).min(40) {
                m.push(0x11);
            }
            m.extend([0x01, 0x6d]);
        }
        Byz::PrimVec { elem, len, tail } => {
            let (op, _, _) = PRIM_VEC[*elem as usize % PRIM_VEC.len()];
            m.extend([0x01, 0x6d, op, 0x01, 0x00]);
            m.extend(leb(*len));
            for i in 0..*tail {
                m.push(i & 1);
            }
        }
        Byz::MuNest { vec, value_depth } => {
            m.extend([0x01, if *vec { 0x6d } else { 0x6e }, 0x00, 0x01, 0x00]);
            for _ in 0..*value_depth {
                m.push(0x01);
            }
            m.push(0x00);
        }
        Byz::BadTag(k) => match k % 3 {
            0 => m.extend([0x01, 0x6b, 0x02, 0x00, 0x7f, 0x01, 0x7f, 0x01, 0x00, 0x02]),
            1 => m.extend([0x00, 0x01, 0x7e, 0x02]),
            _ => m.extend([0x01, 0x6e, 0x7d, 0x01, 0x00, 0x02, 0x05]),
        },
    }
    m
}

pub fn build_msg(m: &Msg) -> Option<Vec<u8>> {
    match m {
        Msg::Raw(h) => Some(crate::engines::stream::unhex(h)),
        Msg::Byzantine(b) => Some(build_byz(b)),
        Msg::Honest { base, damage } => {
            let mut bytes = build_base(base)?;
            for d in damage {
                bytes = apply_damage(bytes, d);
            }
            Some(bytes)
        }
    }
}

// ---------------------------------------------------------------- generation

const HOSTILE_LABELS: [&str; 14] = ["a,b", ",", "", "\"", "a\"b", "1", "42", "日本,語", "x,name,unit", "id,id,struct", " ", "\\", "a\nb", "4294967296"];

/// consistently rename some named labels to names a .did author may legally quote
fn hostile_labels(rng: &mut Rng, t: &SType, map: &mut BTreeMap<String, String>) -> SType {
    let mut lab = |l: &SLabel, rng: &mut Rng, map: &mut BTreeMap<String, String>| -> SLabel {
        match l {
            SLabel::Named(s) => {
                let n = map.entry(s.clone()).or_insert_with(|| if rng.chance(1, 2) { rng.pick(&HOSTILE_LABELS).to_string() } else { s.clone() }).clone();
                SLabel::Named(n)
            }
            other => other.clone(),
        }
    };
    match t {
        SType::Prim(_) | SType::Name(_) => t.clone(),
        SType::Opt(x) => SType::opt(hostile_labels(rng, x, map)),
        SType::Vec(x) => SType::vec(hostile_labels(rng, x, map)),
        SType::Record(fs) => SType::record(fs.iter().map(|(l, x)| (lab(l, rng, map), hostile_labels(rng, x, map))).collect()),
        SType::Variant(fs) => SType::variant(fs.iter().map(|(l, x)| (lab(l, rng, map), hostile_labels(rng, x, map))).collect()),
        SType::Func { args, rets, mode } => SType::Func { args: args.iter().map(|x| hostile_labels(rng, x, map)).collect(), rets: rets.iter().map(|x| hostile_labels(rng, x, map)).collect(), mode: *mode },
        SType::Service(ms) => SType::Service(ms.iter().map(|(n, x)| (n.clone(), hostile_labels(rng, x, map))).collect()),
    }
}

fn gen_untyped_base(rng: &mut Rng, hostile: bool) -> Option<(SEnv, Vec<SType>, Vec<AV>)> {
    let mut k = TyKnobs::draw(rng);
    k.allow_empty = false;
    k.defs = rng.range(0, 4) as usize;
    let mut env = gen_env(rng, &k);
    if hostile {
        let mut map = BTreeMap::new();
        env = SEnv(env.0.iter().map(|(n, t)| (n.clone(), hostile_labels(rng, t, &mut map))).collect());
    }
    let vg = ValGen::new(&env, 140);
    let mut tys = Vec::new();
    let mut vals = Vec::new();
    for _ in 0..rng.range(1, 3) {
        for _ in 0..6 {
            let mut t = gen_data_type(rng, &k, &env);
            if hostile {
                let mut map = BTreeMap::new();
                t = hostile_labels(rng, &t, &mut map);
            }
            if vg.inhabited(&t) {
                let mut b = rng.range(1, 40) as isize;
                if let Some(v) = vg.gen(rng, &t, &mut b) {
                    tys.push(t);
                    vals.push(v);
                    break;
                }
            }
        }
    }
    if tys.is_empty() {
        None
    } else {
        Some((env, tys, vals))
    }
}

fn gen_damage(rng: &mut Rng, approx_len: usize) -> Damage {
    let n = approx_len.max(8);
    match rng.below(14) {
        12 | 13 => Damage::CutTail(rng.range(1, 9) as usize),
        0 | 1 => Damage::Truncate(rng.usize(n + 1)),
        2 | 3 => Damage::Flip { pos: rng.usize(n), bit: rng.below(8) as u8 },
        4 | 5 => Damage::Subst { pos: rng.usize(n), byte: *rng.pick(&[0x00u8, 0x01, 0x02, 0x7f, 0x80, 0xff, 0x6c, 0x6d, 0x6e, 0x6b, 0x6a, 0x69, 0x68, 0x70, 0x71, 0x7d, 0x7c, 0x6f, 0x67]) },
        6 => Damage::DeleteSpan { pos: rng.usize(n), len: rng.range(1, 6) as usize },
        7 => Damage::DupSpan { pos: rng.usize(n), len: rng.range(1, 12) as usize },
        8 => {
            let corp = corpus::corpus();
            Damage::Splice { at: rng.usize(n), other: Box::new(Base::Native { ty: corp[rng.usize(corp.len())].name.clone(), vseed: rng.next_u64(), size: rng.range(0, 8) as usize }), other_at: rng.usize(40) }
        }
        9 | 10 => Damage::Inflate { pos: rng.usize(n), to: *rng.pick(&[0xffu64, 1 << 16, 1 << 20, 1 << 32, 1 << 40, (1 << 63) - 1, u64::MAX]) },
        _ => {
            let k = rng.range(1, 4) as usize;
            Damage::Insert { pos: rng.usize(n), bytes: crate::engines::stream::hex(&rng.bytes(k)) }
        }
    }
}

fn gen_byz(rng: &mut Rng) -> Byz {
    match rng.below(18) {
        16 => {
            let e = rng.below(PRIM_VEC.len() as u64) as u8;
            let sz = PRIM_VEC[e as usize].2;
            let len = match rng.below(8) {
                0 => (1u64 << 63) - 1,
                1 => u64::MAX / sz,
                2 => (u64::MAX / sz).saturating_add(1),
                3 => u64::MAX / sz - rng.below(16),
                4 => (u64::MAX / (sz + 3)).saturating_add(rng.below(3)),
                5 => u64::MAX - rng.below(4),
                6 => 1 << *rng.pick(&[32u32, 40, 61, 62, 63]),
                _ => rng.range(1, 40),
            };
            Byz::PrimVec { elem: e, len, tail: rng.below(24) as u8 }
        }
        17 => Byz::MuNest { vec: rng.chance(1, 3), value_depth: if rng.chance(1, 6) { *rng.pick(&[65_534u32, 65_535, 65_536, 65_537, 70_000]) } else { *rng.pick(&[100u32, 3_000, 20_000]) } },
        15 => Byz::DeepFields { variant: rng.chance(1, 3), depth: *rng.pick(&[10u32, 100, 1000, 5000, 9999, 10000]) },
        0 => Byz::DeepChain { vec: rng.chance(1, 2), depth: *rng.pick(&[10u32, 50, 500, 5000, 9999, 10000]), value_depth: *rng.pick(&[0u32, 10, 500, 5000, 50_000]) },
        1 => Byz::SelfRef { variant: rng.chance(1, 2), mutual: rng.chance(1, 2) },
        2 | 3 => Byz::ZeroSized { elem: rng.below(5) as u8, count_log2: *rng.pick(&[10u8, 16, 20, 24, 32, 40, 63]), nested: rng.chance(1, 3) },
        4 => Byz::TableLen(*rng.pick(&[9_999u64, 10_000, 10_001, 1 << 32, 100, 20_000])),
        5 => Byz::ArgCount(*rng.pick(&[1u64 << 32, 1 << 20, 65, 10_000, u64::MAX >> 1])),
        6 => {
            let ids = match rng.below(5) {
                0 => vec![u32::MAX as u64, 1 << 32],
                1 => vec![5, 5],
                2 => vec![7, 3],
                3 => vec![0, 1, 2],
                _ => vec![u32::MAX as u64 - 1, u32::MAX as u64],
            };
            Byz::Fields { count: *rng.pick(&[ids.len() as u64, 1 << 32, 1 << 20, 0]), ids, variant: rng.chance(1, 2) }
        }
        7 => {
            let names: Vec<String> = match rng.below(5) {
                0 => vec!["62".into(), "61".into()],
                1 => vec!["61".into(), "61".into()],
                2 => vec!["ff fe".replace(' ', "")],
                3 => vec!["".into()],
                _ => vec!["61".into(), "62".into()],
            };
            Byz::Methods { names, non_func: rng.chance(1, 3) }
        }
        8 => Byz::Annotations { count: *rng.pick(&[0u8, 1, 2, 255]), bytes: vec![*rng.pick(&[0u8, 1, 2, 3, 4, 255]), 1] },
        9 => Byz::Future { opcode: *rng.pick(&[-25i64, -26, -100, i64::MIN + 1]), len: *rng.pick(&[0u64, 1, 2, 3, 5, 9, 31, 1 << 20, (1 << 63) - 1]), arg: rng.chance(3, 4) },
        10 => Byz::BadIndex(*rng.pick(&[1i64, 2, -18, -19, -20, -21, -22, -23, -25, 1 << 40])),
        11 => Byz::LebPad { signed: rng.chance(1, 2), pad: *rng.pick(&[1u32, 8, 9, 17, 18, 19, 20, 30, 1000]), terminated: rng.chance(3, 4), as128: rng.chance(1, 2) },
        12 => Byz::LenBeyond { blob: rng.chance(1, 2), len: *rng.pick(&[4u64, 1 << 20, 1 << 32, (1 << 63) - 1, u64::MAX]) },
        13 => Byz::Reference { kind: rng.below(3) as u8, flag: *rng.pick(&[0u8, 1, 2, 255]), len: *rng.pick(&[0u64, 29, 30, 1 << 20, (1 << 63) - 1]) },
        _ => Byz::BadTag(rng.below(3) as u8),
    }
}

const BOMB_RECEIVERS: [&str; 22] = [
    "Vec<()>", "Vec<Reserved>", "Vec<Unit0>", "Vec<Option<S2>>", "Vec<Vec<()>>", "Vec<Option<Nat>>", "Reserved", "Option<Nat>", "Option<List>", "List", "Rose", "Expr", "Vec<u8>", "ByteBuf", "Nat", "Int", "u128", "i128", "FuncRef", "ServRef", "Principal",
    "BTreeMap<String,Nat>",
];

pub fn generate(_prop: &str, _tier: Tier, seed: u64, run: u64) -> Sc {
    let rng = Rng::new(mix(seed, &["C06", "wire"], run));
    let mut knobs = rng.split("knobs");
    let mut wl = rng.split("workload");
    let mut fl = rng.split("faults");
    let stack_kib = *knobs.pick(&[64usize, 128, 256, 1024, 8192]);
    let q = |r: &mut Rng| -> Option<usize> {
        match r.below(8) {
            0 | 1 => None,
            2 => Some(0),
            3 => Some(r.range(1, 50) as usize),
            4 | 5 => Some(1_000),
            _ => Some(100_000),
        }
    };
    let cfg = Cfg { decoding_quota: q(&mut knobs), skipping_quota: q(&mut knobs), max_type_len: *knobs.pick(&[None, None, Some(0usize), Some(5), Some(100), Some(1 << 30)]), full_error: knobs.chance(1, 2) };
    let corp = corpus::corpus();
    let byz = wl.chance(1, 3);
    let mut post_damage: Vec<Damage> = Vec::new();
    let (msg, receiver) = if byz {
        let r = match wl.below(6) {
            0 => Receiver::NoType,
            1 => Receiver::DoneOnly,
            2 => Receiver::Untyped { env: SEnv::new(), tys: vec![SType::vec(SType::Prim(Prim::Null))] },
            3 => Receiver::Native(corp[wl.usize(corp.len())].name.clone()),
            _ => Receiver::Native(wl.pick(&BOMB_RECEIVERS).to_string()),
        };
        if fl.chance(1, 2) {
            post_damage = if fl.chance(1, 2) { vec![Damage::CutTail(fl.range(1, 4) as usize)] } else { (0..fl.range(1, 2)).map(|_| gen_damage(&mut fl, 24)).collect() };
        }
        let b = gen_byz(&mut fl);
        match &b {
            Byz::PrimVec { elem, .. } => {
                // mostly at the receiver whose element type matches exactly, half the time without a quota
                let r = if wl.chance(2, 3) { Receiver::Native(PRIM_VEC[*elem as usize % PRIM_VEC.len()].1.to_string()) } else { r };
                let mut cfg = cfg.clone();
                if knobs.chance(1, 2) {
                    cfg.decoding_quota = None;
                }
                return Sc { stack_kib, receiver: r, msg: Msg::Byzantine(b), post_damage: vec![], cfg };
            }
            Byz::MuNest { vec, value_depth } => {
                let t0 = if *vec { SType::vec(SType::name("T0")) } else { SType::opt(SType::name("T0")) };
                let mut env = SEnv::new();
                env.0.insert("T0".into(), t0);
                let r = match wl.below(3) {
                    0 => Receiver::Untyped { env, tys: vec![SType::name("T0")] },
                    1 => Receiver::DoneOnly,
                    _ => Receiver::NoType,
                };
                let mut cfg = cfg.clone();
                if knobs.chance(1, 2) {
                    cfg.decoding_quota = None;
                    cfg.skipping_quota = None;
                }
                let stack_kib = if *value_depth > 60_000 || knobs.chance(1, 4) { GIANT_STACK_KIB } else { stack_kib };
                return Sc { stack_kib, receiver: r, msg: Msg::Byzantine(b), post_damage: vec![], cfg };
            }
            _ => {}
        }
        (Msg::Byzantine(b), r)
    } else if wl.chance(1, 2) {
        let ty = if wl.chance(1, 3) { wl.pick(&BOMB_RECEIVERS).to_string() } else { corp[wl.usize(corp.len())].name.clone() };
        let base = Base::Native { ty: ty.clone(), vseed: wl.next_u64(), size: wl.range(0, 10) as usize };
        let nd = fl.range(0, 3);
        let damage = (0..nd).map(|_| gen_damage(&mut fl, 40)).collect();
        let r = match wl.below(6) {
            0 => Receiver::NoType,
            1 => Receiver::DoneOnly,
            2 => Receiver::Native(corp[wl.usize(corp.len())].name.clone()),
            _ => Receiver::Native(ty),
        };
        (Msg::Honest { base, damage }, r)
    } else {
        match gen_untyped_base(&mut wl, knobs.chance(1, 2)) {
            Some((env, tys, vals)) => {
                let nd = fl.range(0, 3);
                let damage = (0..nd).map(|_| gen_damage(&mut fl, 40)).collect();
                let r = match wl.below(5) {
                    0 => Receiver::NoType,
                    1 => Receiver::DoneOnly,
                    _ => Receiver::Untyped { env: env.clone(), tys: tys.clone() },
                };
                (Msg::Honest { base: Base::Untyped { env, tys, vals }, damage }, r)
            }
            None => (Msg::Byzantine(gen_byz(&mut fl)), Receiver::NoType),
        }
    };
    Sc { stack_kib, receiver, msg, post_damage, cfg }
}

// ---------------------------------------------------------------- execution

#[derive(Clone, Debug)]
struct Obs {
    class: String,
    panic: Option<String>,
    ticks: u64,
    heap_peak: usize,
    largest: usize,
    len: usize,
    probes: BTreeMap<&'static str, u64>,
    err: String,
}

fn decode(sc: &Sc, bytes: &[u8]) -> Obs {
    let mut cfg = DecoderConfig::new();
    if let Some(q) = sc.cfg.decoding_quota {
        cfg.set_decoding_quota(q);
    }
    if let Some(q) = sc.cfg.skipping_quota {
        cfg.set_skipping_quota(q);
    }
    if let Some(n) = sc.cfg.max_type_len {
        cfg.set_max_type_len(n);
    }
    cfg.set_full_error_message(sc.cfg.full_error);
    // prepare receiver-side data before measuring
    let untyped = match &sc.receiver {
        Receiver::Untyped { env, tys } if env_closed(env) && tys.iter().all(|t| closed(env, t)) => Some((to_env(env), tys.iter().map(to_type).collect::<Vec<_>>())),
        _ => None,
    };
    let native = match &sc.receiver {
        Receiver::Native(n) => corpus::find(n),
        _ => None,
    };
    if let Some(d) = native {
        let _ = guard(|| (d.ty)()); // type derivation is not part of the measured decode
    }
    candid::verif::take_probes();
    candid::verif::reset(TICK_CAP);
    let mark = alloc::mark();
    let r: Guarded<Result<(), String>> = guard(|| match &sc.receiver {
        Receiver::Native(_) => match native {
            Some(d) => (d.decode_cfg)(bytes, &cfg).map(|_| ()),
            None => Ok(()),
        },
        Receiver::Untyped { .. } => match &untyped {
            Some((tenv, tt)) => IDLArgs::from_bytes_with_types_with_config(bytes, tenv, tt, &cfg).map(|_| ()).map_err(corpus::err_chain),
            None => Ok(()),
        },
        Receiver::NoType => IDLArgs::from_bytes_with_config(bytes, &cfg).map(|_| ()).map_err(corpus::err_chain),
        Receiver::DoneOnly => IDLDeserialize::new_with_config(bytes, &cfg).and_then(|mut d| d.done()).map_err(corpus::err_chain),
    });
    let (heap_peak, largest, _) = alloc::since(mark);
    let ticks = candid::verif::ticks();
    candid::verif::reset(0);
    let probes = candid::verif::take_probes();
    let (class, panic, err) = match r {
        Guarded::Done(Ok(())) => ("ok".to_string(), None, String::new()),
        Guarded::Done(Err(e)) => ("err".to_string(), None, e),
        Guarded::Panicked(m) => {
            if m.starts_with(candid::verif::TICK_CAP_MSG) {
                ("tick-cap".to_string(), None, String::new())
            } else {
                ("panic".to_string(), Some(m), String::new())
            }
        }
    };
    Obs { class, panic, ticks, heap_peak, largest, len: bytes.len(), probes, err }
}

pub fn execute(sc: &Sc, ctx: &mut Ctx) -> Result<(), String> {
    for k in ["skip_path", "opt_backtrack", "check_subtype", "primitive_vec_fast_path", "bignum_vec_fast_path", "map_fast_path", "recursion_guard_tripped", "quota_error", "tick_cap_without_quota", "decoded_ok", "header_rejected", "table_cap_rejected"] {
        ctx.stats.declare_probe(k);
    }
    let Some(mut bytes) = build_msg(&sc.msg) else {
        ctx.stats.probe("base_message_not_built");
        return Ok(());
    };
    for d in &sc.post_damage {
        bytes = apply_damage(bytes, d);
    }
    let sc2 = sc.clone();
    let b2 = bytes.clone();
    let obs = match on_thread(sc.stack_kib * 1024, {
        let (sc2, b2) = (sc2.clone(), b2.clone());
        move || decode(&sc2, &b2)
    }) {
        // no address space for the giant stack here (ulimit -v, container limit): the run still
        // happens, on the largest ordinary stack, and says so
        Err(e) if e.starts_with("spawn:") && sc.stack_kib > 8192 => {
            ctx.stats.probe("giant_stack_unavailable");
            on_thread(8192 * 1024, move || decode(&sc2, &b2)).map_err(|e| format!("wire engine (C06) panicked outside a guarded call: {e}"))?
        }
        r => r.map_err(|e| format!("wire engine (C06) panicked outside a guarded call: {e}"))?,
    };
    let rname = match &sc.receiver {
        Receiver::Native(n) => format!("native:{n}"),
        Receiver::Untyped { tys, .. } => format!("untyped:({})", tys.iter().map(show_type).collect::<Vec<_>>().join(",")),
        Receiver::NoType => "from_bytes".into(),
        Receiver::DoneOnly => "done-only".into(),
    };
    let mkind = match &sc.msg {
        Msg::Honest { damage, .. } => {
            if damage.is_empty() {
                "honest".to_string()
            } else {
                format!("damaged:{}", damage.iter().map(|d| format!("{d:?}").split(['(', ' ', '{']).next().unwrap_or("").to_string()).collect::<Vec<_>>().join("+"))
            }
        }
        Msg::Byzantine(b) => format!("byzantine:{}", format!("{b:?}").split(['(', ' ', '{']).next().unwrap_or("")),
        Msg::Raw(_) => "raw".into(),
    };
    ctx.ev(&format!("stack={}K cfg={:?} recv={rname} msg={mkind} len={} -> {} ticks={}", sc.stack_kib, sc.cfg, bytes.len(), obs.class, obs.ticks));
    ctx.stats.op(&format!("receiver_{}", rname.split(':').next().unwrap_or("")));
    // faults that fired
    match &sc.msg {
        Msg::Honest { damage, .. } => {
            for d in damage {
                ctx.stats.fault(&format!("channel_{}", format!("{d:?}").split(['(', ' ', '{']).next().unwrap_or("").to_lowercase()), 1);
            }
        }
        Msg::Byzantine(b) => ctx.stats.fault(&format!("byzantine_{}", format!("{b:?}").split(['(', ' ', '{']).next().unwrap_or("").to_lowercase()), 1),
        Msg::Raw(_) => {}
    }
    for d in &sc.post_damage {
        ctx.stats.fault(&format!("channel_{}", format!("{d:?}").split(['(', ' ', '{']).next().unwrap_or("").to_lowercase()), 1);
    }
    if sc.cfg.decoding_quota.is_some() {
        ctx.stats.fault("decoding_quota_set", 1);
    }
    if sc.stack_kib <= 128 {
        ctx.stats.fault("small_thread_stack", 1);
    }
    for (k, n) in &obs.probes {
        ctx.stats.probe_n(k, *n);
    }
    if obs.err.contains("Recursion limit") {
        ctx.stats.probe("recursion_guard_tripped");
    }
    if obs.err.contains("cost exceeds the limit") {
        ctx.stats.probe("quota_error");
    }
    if obs.err.contains("Cannot parse header") {
        ctx.stats.probe("header_rejected");
    }
    if obs.err.contains("type table size exceeded") {
        ctx.stats.probe("table_cap_rejected");
    }
    if obs.class == "ok" {
        ctx.stats.probe("decoded_ok");
    }
    ctx.stats.state(fnv1a(format!("{rname}|{mkind}|{}|{}", obs.class, obs.err.chars().take(24).collect::<String>()).as_bytes()));
    if !matches!(&sc.msg, Msg::Honest { damage, .. } if damage.is_empty()) {
        ctx.stats.nontrivial_runs += 1;
    }
    ctx.stats.max("largest_single_allocation_bytes", obs.largest as f64);
    if obs.largest > (32 << 20) && std::env::var_os("SIM_C06_DEBUG").is_some() {
        eprintln!("BIGALLOC {} peak={} {rname} {mkind} cfg={:?} msg={}", obs.largest, obs.heap_peak, sc.cfg, crate::engines::stream::hex(&bytes[..bytes.len().min(64)]));
    }
    let key_msg = crate::engines::stream::hex(&bytes[..bytes.len().min(96)]);
    // ---- invariant 1: value or error
    if let Some(m) = &obs.panic {
        ctx.violate("decode-no-panic", &format!("{}@{}", rname.split(':').next().unwrap_or(""), panic_key(m)), format!("decoding panicked: {m}; receiver {rname}; config {:?}; stack {} KiB; message ({} bytes) {key_msg}", sc.cfg, sc.stack_kib, bytes.len()));
    }
    // ---- invariant 2/3: work and memory bounds under a decoding quota
    match sc.cfg.decoding_quota {
        Some(q) => {
            let qf = q as f64;
            let lf = obs.len as f64;
            ctx.stats.max("ticks_over_quota_plus_len", obs.ticks as f64 / (qf + lf + 1.0));
            ctx.stats.max("heap_over_quota_plus_len", obs.heap_peak as f64 / (qf + lf + 1.0));
            if obs.class == "tick-cap" || obs.ticks as f64 > TICK_A * qf + TICK_B * lf + TICK_C {
                ctx.violate(
                    "work-bounded-by-quota",
                    &format!("{rname}|{mkind}"),
                    format!("with decoding quota {q} and a {}-byte message the decoder did {} units of work (cap {TICK_CAP}); bound {TICK_A}*q + {TICK_B}*len + {TICK_C}; receiver {rname}; message {key_msg}", obs.len, obs.ticks),
                );
            }
            if obs.heap_peak as f64 > HEAP_C + HEAP_A * lf + HEAP_B * qf {
                ctx.violate(
                    "memory-bounded-by-quota",
                    &format!("{rname}|{mkind}"),
                    format!("with decoding quota {q} and a {}-byte message the decoder's live heap peaked at {} bytes (largest single request {}); bound {HEAP_C} + {HEAP_A}*len + {HEAP_B}*q; receiver {rname}; message {key_msg}", obs.len, obs.heap_peak, obs.largest),
                );
            }
        }
        None => {
            if obs.class == "tick-cap" {
                // no quota, no work bound in the statement
                ctx.stats.inconclusive += 1;
                ctx.stats.probe("tick_cap_without_quota");
            }
        }
    }
    if ctx.stats.samples.len() < 6 && ctx.stats.runs % 7 == 0 {
        ctx.stats.sample(serde_json::json!({"stack_kib": sc.stack_kib, "config": format!("{:?}", sc.cfg), "receiver": rname, "message_kind": mkind, "message_prefix": key_msg, "outcome": obs.class, "ticks": obs.ticks, "heap_peak": obs.heap_peak}));
    }
    Ok(())
}

pub fn size(sc: &Sc) -> usize {
    let m = match &sc.msg {
        Msg::Raw(h) => h.len() / 2,
        Msg::Byzantine(_) => 5000,
        Msg::Honest { damage, .. } => 6000 + damage.len() * 10,
    } + sc.post_damage.len() * 10 + if sc.post_damage.is_empty() { 0 } else { 6000 };
    let r = match &sc.receiver {
        Receiver::Untyped { env, tys } => env.0.values().map(|t| t.nodes()).sum::<usize>() + tys.iter().map(|t| t.nodes()).sum::<usize>(),
        _ => 1,
    };
    m + r + sc.cfg.decoding_quota.is_some() as usize + sc.cfg.skipping_quota.is_some() as usize + sc.cfg.max_type_len.is_some() as usize + if sc.stack_kib < 8192 { 1 } else { 0 }
}

pub fn shrink(sc: &Sc) -> Vec<Sc> {
    let mut out = Vec::new();
    // explicit bytes first: replay no longer depends on generators
    if !matches!(sc.msg, Msg::Raw(_)) || !sc.post_damage.is_empty() {
        if let Some(mut b) = build_msg(&sc.msg) {
            for d in &sc.post_damage {
                b = apply_damage(b, d);
            }
            if b.len() <= 6000 {
                let mut s = sc.clone();
                s.msg = Msg::Raw(crate::engines::stream::hex(&b));
                s.post_damage.clear();
                out.push(s);
            }
        }
        if let Msg::Honest { base, damage } = &sc.msg {
            for i in 0..damage.len() {
                let mut d = damage.clone();
                d.remove(i);
                let mut s = sc.clone();
                s.msg = Msg::Honest { base: base.clone(), damage: d };
                out.push(s);
            }
        }
        return out;
    }
    // simpler knobs
    if sc.stack_kib != 8192 {
        let mut s = sc.clone();
        s.stack_kib = 8192;
        out.push(s);
    }
    if sc.cfg.skipping_quota.is_some() {
        let mut s = sc.clone();
        s.cfg.skipping_quota = None;
        out.push(s);
    }
    if sc.cfg.max_type_len.is_some() {
        let mut s = sc.clone();
        s.cfg.max_type_len = None;
        out.push(s);
    }
    if sc.cfg.decoding_quota.is_some() {
        let mut s = sc.clone();
        s.cfg.decoding_quota = None;
        out.push(s);
    }
    if let Msg::Raw(h) = &sc.msg {
        let b = crate::engines::stream::unhex(h);
        // delete chunks, large to small
        let mut chunk = (b.len() / 2).max(1);
        while chunk >= 1 {
            let mut i = 4; // keep the magic
            while i + chunk <= b.len() {
                let mut c = b.clone();
                c.drain(i..i + chunk);
                let mut s = sc.clone();
                s.msg = Msg::Raw(crate::engines::stream::hex(&c));
                out.push(s);
                i += chunk;
            }
            if chunk == 1 {
                break;
            }
            chunk /= 2;
        }
    }
    out
}
