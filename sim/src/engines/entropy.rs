//! Engine E `entropy-sim` (C20): the random value generator reads an entropy
//! stream that can run dry at any interior point. For a seeded buffer every
//! prefix is run; stuck-at and short-period buffers too.

use crate::kernel::guard::{guard, on_thread, panic_key, Guarded};
use crate::kernel::report::{Ctx, Tier};
use crate::kernel::rng::{fnv1a, mix, Rng};
use crate::models::conv::{from_idl, to_env, to_type};
use crate::models::gen::*;
use crate::models::stype::*;
use candid_parser::configs::Configs;
use serde::{Deserialize, Serialize};
use std::collections::BTreeMap;
use std::str::FromStr;

#[derive(Serialize, Deserialize, Clone, Debug, PartialEq)]
pub enum Cuts {
    /// run the generator on every prefix 0..=n of the buffer
    EveryPrefix,
    /// only these prefix lengths (minimised replays)
    Only(Vec<usize>),
}

#[derive(Serialize, Deserialize, Clone, Debug, PartialEq)]
pub struct Sc {
    pub stack_kib: usize,
    pub env: SEnv,
    pub tys: Vec<SType>,
    /// TOML handed to Configs::from_str
    pub config: String,
    /// hex
    pub entropy: String,
    pub cuts: Cuts,
    /// planted family only: the configured depth bounds the nesting of every returned value
    /// (constructor levels, not counting through vectors) by this number
    #[serde(default)]
    pub nesting_bound: Option<usize>,
    /// the bound counts nesting through vectors as well (planted family `VT`, whose recursion runs
    /// through `vec <named type>`)
    #[serde(default)]
    pub through_vec: bool,
}

pub fn runs_for(_prop: &str, tier: Tier) -> u64 {
    match tier {
        Tier::Quick => 6144,
        Tier::Thorough => 24576,
    }
}

fn gen_config(rng: &mut Rng, env: &SEnv, tys: &[SType]) -> String {
    let mut s = String::from("[random]\n");
    if rng.chance(2, 3) {
        // A depth of 30 is only a feasible workload where the recursion cannot branch: a definition that
        // mentions names twice, or sits under a vector, may legitimately produce ~2^depth nodes (the size
        // budget is per path), which is a long run and not a non-terminating one.
        let mut d = *rng.pick(&[-1i64, 0, 1, 2, 3, 5, 10, 30]);
        let branching = env.0.values().chain(tys.iter()).any(|t| {
            let mut st = Vec::new();
            subterms(t, &mut st);
            st.iter().filter(|x| matches!(x, SType::Name(_))).count() >= 2 || st.iter().any(|x| matches!(x, SType::Vec(_)))
        });
        if d == 30 && branching {
            d = 12;
        }
        s.push_str(&format!("depth = {d}\n"));
    }
    if rng.chance(2, 3) {
        s.push_str(&format!("size = {}\n", rng.pick(&[-5i64, 0, 1, 5, 20, 100, 1000])));
    }
    if rng.chance(1, 2) {
        s.push_str(&format!("width = {}\n", rng.pick(&[0u32, 1, 2, 5, 10, 40])));
    }
    if rng.chance(1, 2) {
        let (a, b) = *rng.pick(&[(0i64, 0i64), (-10, 10), (0, 255), (-1, 1), (i64::MIN, i64::MAX), (250, 260), (5, 3), (-129, -127)]);
        s.push_str(&format!("range = [{a}, {b}]\n"));
    }
    if rng.chance(1, 2) {
        s.push_str(&format!("text = \"{}\"\n", rng.pick(&["ascii", "emoji", "name", "name.cn", "path", "country", "company", "bs", "nonsense"])));
    }
    // per-path overrides
    let names: Vec<&String> = env.0.keys().collect();
    for _ in 0..rng.below(3) {
        let path = match rng.below(8) {
            0 if !names.is_empty() => (*rng.pick(&names)).clone(),
            1 => "nat".into(),
            6 => rng.pick(&["nat8", "nat16", "nat32", "nat64", "int", "int8", "int16", "int32", "int64", "float32", "float64", "bool", "principal", "null", "reserved"]).to_string(),
            7 => {
                // a field label of some record/variant in scope
                let mut labels = Vec::new();
                for t in env.0.values().chain(tys.iter()) {
                    let mut st = Vec::new();
                    subterms(t, &mut st);
                    for x in st {
                        if let SType::Record(fs) | SType::Variant(fs) = x {
                            for (l, _) in fs {
                                if let SLabel::Named(n) = l {
                                    if n.chars().all(|c| c.is_ascii_alphanumeric() || c == '_') && !n.is_empty() {
                                        labels.push(n.clone());
                                    }
                                }
                            }
                        }
                    }
                }
                if labels.is_empty() {
                    "variant".into()
                } else {
                    rng.pick(&labels).clone()
                }
            }
            2 => "vec".into(),
            3 => "text".into(),
            4 => "opt".into(),
            _ => "record".into(),
        };
        s.push_str(&format!("[random.{path}]\n"));
        match rng.below(5) {
            0 => s.push_str(&format!("depth = {}\n", rng.pick(&[0i64, 1, 2]))),
            1 => s.push_str(&format!("width = {}\n", rng.pick(&[0u32, 1, 3]))),
            2 => s.push_str("range = [1, 3]\n"),
            3 => {
                // configured values that may or may not fit the type at that path
                let vals = rng.pick(&[
                    "[\"42\"]",
                    "[\"\\\"hello\\\"\"]",
                    "[\"null\"]",
                    "[\"opt 5\"]",
                    "[\"vec {1;2}\"]",
                    "[\"record {}\"]",
                    "[\"-1\"]",
                    "[\"true\", \"false\"]",
                    "[\"300\"]",
                    "[\"blob \\\"ab\\\"\"]",
                    "[\"principal \\\"aaaaa-aa\\\"\"]",
                    "[]",
                ]);
                s.push_str(&format!("value = {vals}\n"));
            }
            _ => s.push_str("size = 3\n"),
        }
    }
    // the same literal configured for several number types at once: each position must still get
    // a value of its own type
    if rng.chance(1, 8) {
        let lit = *rng.pick(&["7", "1", "0", "100"]);
        for p in ["nat", "int", "nat8", "nat16", "nat32", "nat64", "int8", "int16", "int32", "int64"] {
            if rng.chance(1, 2) {
                s.push_str(&format!("[random.{p}]\nvalue = [\"{lit}\"]\n"));
            }
        }
    }
    s
}

pub fn generate(_prop: &str, _tier: Tier, seed: u64, run: u64) -> Sc {
    let rng = Rng::new(mix(seed, &["C20", "entropy"], run));
    let mut knobs = rng.split("knobs");
    let mut wl = rng.split("workload");
    let mut fl = rng.split("faults");
    let stack_kib = *knobs.pick(&[512usize, 1024, 8192]);
    if knobs.chance(1, 8) {
        // planted family with a known depth semantics: T = variant {a : T; b} nests at most depth+1 levels,
        // L = opt record {head; tail : L} at most depth+2; the depth comes from the global setting or from a
        // per-path override on the recursive definition itself
        let mut env = SEnv::new();
        env.0.insert("T".into(), SType::variant(vec![(SLabel::Named("a".into()), SType::name("T")), (SLabel::Named("b".into()), SType::Prim(Prim::Null))]));
        env.0.insert("L".into(), SType::opt(SType::record(vec![(SLabel::Named("head".into()), SType::Prim(Prim::Nat8)), (SLabel::Named("tail".into()), SType::name("L"))])));
        // W: the non-recursive alternative mentions one named type twice
        env.0.insert("P".into(), SType::record(vec![(SLabel::Named("x".into()), SType::Prim(Prim::Nat8))]));
        env.0.insert("W".into(), SType::variant(vec![(SLabel::Named("stop".into()), SType::record(vec![(SLabel::Id(0), SType::name("P")), (SLabel::Id(1), SType::name("P"))])), (SLabel::Named("go".into()), SType::name("W"))]));
        // VT: the recursion runs through a vector of a *named* type (leaving a name must not hand back
        // depth that entering it never took: the surplus would add up from element to element)
        env.0.insert("VT".into(), SType::variant(vec![(SLabel::Named("leaf".into()), SType::Prim(Prim::Null)), (SLabel::Named("node".into()), SType::vec(SType::name("VT")))]));
        let which = *knobs.pick(&["T", "L", "W", "VT"]);
        let d = knobs.range(0, 12) as usize;
        let config = match knobs.below(3) {
            0 => format!("[random]\ndepth = {d}\n"),
            1 => format!("[random]\ndepth = 40\n[random.{which}]\ndepth = {d}\n"),
            // the size budget binds before the depth budget (size counts type nodes and is never given back)
            _ => format!("[random]\ndepth = 40\nsize = {d}\n"),
        };
        let n = *fl.pick(&[0usize, 1, 8, 64, 256]);
        let entropy = match fl.below(4) {
            0 => vec![0x00; n],
            1 => vec![0xff; n],
            _ => fl.bytes(n),
        };
        return Sc { stack_kib: 8192, env, tys: vec![SType::name(which)], config, entropy: crate::engines::stream::hex(&entropy), cuts: Cuts::EveryPrefix, nesting_bound: Some(d + 6), through_vec: which == "VT" };
    }
    if knobs.chance(1, 24) {
        // planted: one argument with many number types next to each other, and `value` lists that give
        // the same literal to several of them (by type, and by field label across two records)
        let mut env = SEnv::new();
        let n = |s: &str| SLabel::Named(s.to_string());
        env.0.insert(
            "R".into(),
            SType::record(vec![
                (n("a"), SType::Prim(Prim::Nat8)),
                (n("b"), SType::Prim(Prim::Nat16)),
                (n("c"), SType::Prim(Prim::Int32)),
                (n("d"), SType::Prim(Prim::Nat)),
                (n("e"), SType::Prim(Prim::Int)),
                (n("f"), SType::vec(SType::Prim(Prim::Nat64))),
                (n("g"), SType::opt(SType::Prim(Prim::Int8))),
                (n("id"), SType::Prim(Prim::Nat8)),
                (n("sub"), SType::record(vec![(n("id"), SType::Prim(Prim::Nat64)), (n("h"), SType::Prim(Prim::Float64))])),
            ]),
        );
        let lit = *knobs.pick(&["7", "1", "0", "100"]);
        let mut config = String::from("[random]\n");
        for p in ["nat", "int", "nat8", "nat16", "nat32", "nat64", "int8", "int32", "id"] {
            if knobs.chance(2, 3) {
                config.push_str(&format!("[random.{p}]\nvalue = [\"{lit}\", \"2\"]\n"));
            }
        }
        let nb = *fl.pick(&[0usize, 8, 64, 256]);
        let entropy = fl.bytes(nb);
        let tys = if knobs.chance(1, 2) { vec![SType::name("R")] } else { vec![SType::name("R"), SType::vec(SType::name("R"))] };
        return Sc { stack_kib: 8192, env, tys, config, entropy: crate::engines::stream::hex(&entropy), cuts: Cuts::EveryPrefix, nesting_bound: None, through_vec: false };
    }
    let mut k = TyKnobs::draw(&mut knobs);
    k.defs = knobs.range(0, 5) as usize;
    k.allow_empty = knobs.chance(1, 4);
    k.allow_reserved = true;
    let mut env = gen_env(&mut wl, &k);
    // sometimes plant the classic hard cases
    if wl.chance(1, 6) {
        env.0.insert("L".into(), SType::record(vec![(SLabel::Id(0), SType::name("L"))])); // uninhabited
    }
    if wl.chance(1, 6) {
        env.0.insert("V".into(), SType::variant(vec![(SLabel::Id(0), SType::name("V")), (SLabel::Id(1), SType::Prim(Prim::Null))])); // first case recursive
    }
    if wl.chance(1, 6) {
        env.0.insert("Tree".into(), SType::record(vec![(SLabel::Named("kids".into()), SType::vec(SType::name("Tree"))), (SLabel::Named("v".into()), SType::Prim(Prim::Int))]));
    }
    let nt = wl.range(1, 3);
    let names: Vec<String> = env.0.keys().cloned().collect();
    let tys: Vec<SType> = (0..nt)
        .map(|_| if !names.is_empty() && wl.chance(1, 2) { SType::Name(wl.pick(&names).clone()) } else { gen_data_type(&mut wl, &k, &env) })
        .collect();
    let config = if knobs.chance(1, 5) { String::new() } else { gen_config(&mut knobs, &env, &tys) };
    let n = *fl.pick(&[0usize, 1, 2, 8, 32, 64, 128, 256]);
    let entropy = match fl.below(6) {
        0 => vec![0x00; n],
        1 => vec![0xff; n],
        2 => {
            let p = fl.bytes(3);
            (0..n).map(|i| p[i % 3]).collect()
        }
        _ => fl.bytes(n),
    };
    Sc { stack_kib, env, tys, config, entropy: crate::engines::stream::hex(&entropy), cuts: Cuts::EveryPrefix, nesting_bound: None, through_vec: false }
}

#[derive(Default)]
struct Local {
    events: Vec<String>,
    viol: Vec<(String, String, String)>,
    probes: BTreeMap<String, u64>,
    faults: BTreeMap<String, u64>,
    states: Vec<u64>,
    calls: u64,
    ok: u64,
    err: u64,
    config_rejected: bool,
}

fn run(sc: &Sc, log: bool) -> Local {
    let mut l = Local::default();
    if !env_closed(&sc.env) || sc.tys.iter().any(|t| !closed(&sc.env, t)) {
        return l;
    }
    let tenv = to_env(&sc.env);
    let ttys: Vec<_> = sc.tys.iter().map(to_type).collect();
    let entropy = crate::engines::stream::unhex(&sc.entropy);
    let cuts: Vec<usize> = match &sc.cuts {
        Cuts::EveryPrefix => (0..=entropy.len()).collect(),
        Cuts::Only(v) => v.iter().copied().filter(|k| *k <= entropy.len()).collect(),
    };
    let tdesc = format!("({}) env [{}] config [{}]", sc.tys.iter().map(show_type).collect::<Vec<_>>().join(", "), show_prog(&sc.env, &sc.env.0.keys().cloned().collect::<Vec<_>>(), None).replace('\n', " "), sc.config.replace('\n', "; "));
    for k in cuts {
        let configs = match Configs::from_str(&sc.config) {
            Ok(c) => c,
            Err(_) => {
                l.config_rejected = true;
                return l;
            }
        };
        l.calls += 1;
        if k < entropy.len() {
            *l.faults.entry("entropy_truncated".into()).or_insert(0) += 1;
        }
        let r = guard(|| candid_parser::random::any(&entropy[..k], configs, &tenv, &ttys, &None));
        match r {
            Guarded::Panicked(m) => {
                l.v("generator-no-panic", format!("@{}", panic_key(&m)), format!("random::any panicked with {k} of {} entropy bytes: {m}; types {tdesc}", entropy.len()));
                return l;
            }
            Guarded::Done(Err(_)) => {
                l.err += 1;
            }
            Guarded::Done(Ok(args)) => {
                l.ok += 1;
                if args.args.len() != sc.tys.len() {
                    l.v("generated-arity", format!("{tdesc}"), format!("{} values for {} types", args.args.len(), sc.tys.len()));
                    return l;
                }
                for (i, (v, t)) in args.args.iter().zip(sc.tys.iter()).enumerate() {
                    let av = from_idl(v);
                    l.states.push(fnv1a(format!("{}|{}", show_type(t), av.nodes()).as_bytes()));
                    if let Some(b) = sc.nesting_bound {
                        let n = nesting(&av, sc.through_vec);
                        if n > b {
                            l.v("recursion-within-configured-depth", show_type(t), format!("argument {i}: the generated value nests {n} constructor levels although the configured depth allows at most {b}; entropy prefix {k}/{}; types {tdesc}", entropy.len()));
                            return l;
                        }
                    }
                    if let Err(e) = has_type(&sc.env, &av, t) {
                        l.v("generated-value-inhabits-type", show_type(t), format!("argument {i}: generated value is not of the requested type: {e}; entropy prefix {k}/{}; types {tdesc}", entropy.len()));
                        return l;
                    }
                    // annotates unchanged
                    match guard(|| v.annotate_type(false, &tenv, &ttys[i])) {
                        Guarded::Done(Ok(v2)) => {
                            if from_idl(&v2) != av {
                                l.v("generated-value-annotates-unchanged", show_type(t), format!("argument {i}: annotating the generated value with its type changed it from {} to {}; types {tdesc}", av.brief(), from_idl(&v2).brief()));
                                return l;
                            }
                        }
                        Guarded::Done(Err(e)) => {
                            l.v("generated-value-annotates-unchanged", show_type(t), format!("argument {i}: generated value {} does not annotate at its type: {e}; types {tdesc}", av.brief()));
                            return l;
                        }
                        Guarded::Panicked(m) => {
                            l.v("generator-no-panic", format!("annotate@{}", panic_key(&m)), format!("annotate_type panicked: {m}"));
                            return l;
                        }
                    }
                }
                match guard(|| args.to_bytes_with_types(&tenv, &ttys)) {
                    Guarded::Done(Ok(_)) => {}
                    Guarded::Done(Err(e)) => {
                        l.v("generated-values-encode", tdesc.clone(), format!("generated arguments do not encode at the requested types: {e}; types {tdesc}"));
                        return l;
                    }
                    Guarded::Panicked(m) => {
                        l.v("generator-no-panic", format!("encode@{}", panic_key(&m)), format!("to_bytes_with_types panicked: {m}"));
                        return l;
                    }
                }
            }
        }
    }
    if log {
        l.events.push(format!("types ({}) entropy {} bytes: {} calls, {} ok, {} err", sc.tys.iter().map(show_type).collect::<Vec<_>>().join(", "), entropy.len(), l.calls, l.ok, l.err));
    }
    l
}
/// constructor nesting of a value, restarting below vectors unless `through_vec`
fn nesting(v: &AV, through_vec: bool) -> usize {
    fn go(v: &AV, best: &mut usize, tv: bool) -> usize {
        let d = match v {
            AV::Vec(xs) if tv => 1 + xs.iter().map(|x| go(x, best, tv)).max().unwrap_or(0),
            AV::Opt(Some(x)) => 1 + go(x, best, tv),
            AV::Variant(_, x) => 1 + go(x, best, tv),
            AV::Record(fs) => 1 + fs.iter().map(|(_, x)| go(x, best, tv)).max().unwrap_or(0),
            AV::Vec(xs) => {
                for x in xs {
                    go(x, best, tv);
                }
                1
            }
            _ => 1,
        };
        if d > *best {
            *best = d;
        }
        d
    }
    let mut best = 0;
    go(v, &mut best, through_vec);
    best
}

impl Local {
    fn v(&mut self, inv: &str, key: String, detail: String) {
        self.viol.push((inv.to_string(), key, detail));
    }
}

pub fn execute(sc: &Sc, ctx: &mut Ctx) -> Result<(), String> {
    for k in ["config_rejected_by_parser", "generator_returned_error", "uninhabited_type_requested", "empty_type_requested"] {
        ctx.stats.declare_probe(k);
    }
    let sc2 = sc.clone();
    let l = on_thread(sc.stack_kib * 1024, move || run(&sc2, true)).map_err(|e| format!("entropy engine panicked outside a guarded call: {e}"))?;
    for e in &l.events {
        ctx.ev(e);
    }
    ctx.stats.steps += l.calls;
    for (k, n) in &l.faults {
        ctx.stats.fault(k, *n);
    }
    if l.config_rejected {
        ctx.stats.probe("config_rejected_by_parser");
    }
    ctx.stats.probe_n("generator_returned_error", l.err);
    let vg = ValGen::new(&sc.env, 64);
    if sc.tys.iter().any(|t| !vg.inhabited(t)) {
        ctx.stats.probe("uninhabited_type_requested");
    }
    if sc.tys.iter().any(|t| sc.env.mentions(t, Prim::Empty)) {
        ctx.stats.probe("empty_type_requested");
    }
    for h in &l.states {
        ctx.stats.state(*h);
    }
    *ctx.stats.ops.entry("generator_calls".into()).or_insert(0) += l.calls;
    *ctx.stats.ops.entry("generator_ok".into()).or_insert(0) += l.ok;
    if matches!(sc.cuts, Cuts::EveryPrefix) && l.calls > 0 {
        *ctx.stats.exhaustive_parts.entry("buffers_with_every_prefix_run".into()).or_insert(0) += 1;
    }
    if l.ok > 0 {
        ctx.stats.nontrivial_runs += 1;
    }
    if ctx.stats.samples.len() < 6 && l.ok > 0 {
        ctx.stats.sample(serde_json::json!({"types": sc.tys.iter().map(show_type).collect::<Vec<_>>(), "env": show_prog(&sc.env, &sc.env.0.keys().cloned().collect::<Vec<_>>(), None), "config": sc.config, "entropy_bytes": sc.entropy.len() / 2, "calls": l.calls, "ok": l.ok}));
    }
    for (inv, key, detail) in l.viol {
        ctx.violate(&inv, &key, detail);
    }
    Ok(())
}

pub fn size(sc: &Sc) -> usize {
    sc.env.0.values().map(|t| t.nodes()).sum::<usize>()
        + sc.tys.iter().map(|t| t.nodes()).sum::<usize>()
        + sc.config.lines().count()
        + sc.entropy.len() / 2
        + match &sc.cuts {
            Cuts::EveryPrefix => 300,
            Cuts::Only(v) => v.len(),
        }
}

pub fn shrink(sc: &Sc) -> Vec<Sc> {
    let mut out = Vec::new();
    let n = sc.entropy.len() / 2;
    // a single prefix
    match &sc.cuts {
        Cuts::EveryPrefix => {
            for k in 0..=n {
                let mut s = sc.clone();
                s.cuts = Cuts::Only(vec![k]);
                out.push(s);
            }
            return out;
        }
        Cuts::Only(v) if v.len() == 1 && v[0] < n => {
            // the buffer beyond the cut is irrelevant
            let mut s = sc.clone();
            s.entropy = sc.entropy[..2 * v[0]].to_string();
            out.push(s);
        }
        _ => {}
    }
    // fewer types
    if sc.tys.len() > 1 {
        for i in 0..sc.tys.len() {
            let mut s = sc.clone();
            s.tys = vec![sc.tys[i].clone()];
            out.push(s);
        }
    }
    // no config / fewer config lines (the planted family's bound is tied to its configuration)
    if !sc.config.is_empty() && sc.nesting_bound.is_none() {
        let mut s = sc.clone();
        s.config = String::new();
        out.push(s);
        let lines: Vec<&str> = sc.config.lines().collect();
        for i in 1..lines.len() {
            let mut l2 = lines.clone();
            l2.remove(i);
            let mut s = sc.clone();
            s.config = l2.join("\n") + "\n";
            out.push(s);
        }
    }
    // unused definitions
    let mut used: Vec<String> = Vec::new();
    for t in &sc.tys {
        let mut st = Vec::new();
        subterms(t, &mut st);
        for x in st {
            if let SType::Name(n) = x {
                used.push(n);
            }
        }
    }
    let mut i = 0;
    while i < used.len() {
        if let Some(t) = sc.env.0.get(&used[i]) {
            let mut st = Vec::new();
            subterms(t, &mut st);
            for x in st {
                if let SType::Name(n) = x {
                    if !used.contains(&n) {
                        used.push(n);
                    }
                }
            }
        }
        i += 1;
    }
    if sc.env.0.keys().any(|k| !used.contains(k)) {
        let mut s = sc.clone();
        s.env.0.retain(|k, _| used.contains(k));
        out.push(s);
    }
    // zero the entropy
    if sc.entropy.bytes().any(|b| b != b'0') {
        let mut s = sc.clone();
        s.entropy = "00".repeat(n);
        out.push(s);
    }
    out
}
