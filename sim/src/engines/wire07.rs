//! Engine C `wire-sim`, metered mode (C07): the quota is a fault that aborts a
//! decode after k units of work; for every honest delivery the abort point is
//! enumerated over the whole range around the measured cost.

use crate::corpus;
use crate::kernel::guard::{guard, on_thread, panic_key, Guarded};
use crate::kernel::report::{Ctx, Tier};
use crate::kernel::rng::{fnv1a, mix, Rng};
use crate::models::bigint::{leb_min, sleb_min, BigI, BigU};
use crate::models::conv::{from_idl, to_env, to_idl, to_type};
use crate::models::gen::*;
use crate::models::gfp;
use crate::models::stype::*;
use candid::de::{DecoderConfig, IDLDeserialize};
use candid::types::TypeEnv;
use candid::IDLArgs;
use serde::{Deserialize, Serialize};
use std::collections::BTreeMap;

#[derive(Serialize, Deserialize, Clone, Debug, PartialEq)]
pub enum Case {
    /// values `vals` of types `wire` encoded by the typed-untyped encoder, decoded at `expect` through the untyped API
    Untyped {
        env: SEnv,
        wire: Vec<SType>,
        expect: Vec<SType>,
        vals: Vec<AV>,
        /// decode with no expected type at all (get_value::<IDLValue>() until is_done); `expect` is ignored
        #[serde(default)]
        no_type: bool,
    },
    /// value of Rust type `sender` (plus an optional surplus argument) decoded at Rust type `receiver`
    Native { sender: String, receiver: String, vseed: u64, size: usize, extra: Option<String> },
}

#[derive(Serialize, Deserialize, Clone, Debug, PartialEq)]
pub struct Sc {
    pub stack_kib: usize,
    pub cases: Vec<Case>,
    /// seed for the sampled abort points of messages costing more than `ENUM_LIMIT`
    pub qseed: u64,
}

pub const ENUM_LIMIT: usize = 4000;
/// upper bound factor on cost / documented model, identity decodes only.
/// Calibrated on the unchanged tree (largest observed ratio 1.9), times 4.
pub const K_MODEL: f64 = 8.0;

pub fn runs_for(_prop: &str, tier: Tier) -> u64 {
    match tier {
        Tier::Quick => 3072,
        Tier::Thorough => 32768,
    }
}

// ---------------------------------------------------------------- generation

const PAIRS: [(&str, &str); 22] = [
    ("Vec<Nat>", "Vec<Int>"),
    ("Nat", "Int"),
    ("BTreeMap<String,Nat>", "BTreeMap<String,Int>"),
    ("BTreeMap<Nat,Nat>", "BTreeMap<Int,Nat>"),
    ("Vec<(Nat,Int)>", "Vec<(Int,Int)>"),
    ("Vec<SmallNat>", "Vec<i128>"),
    ("Vec<SmallNat>", "Vec<u128>"),
    ("Vec<SmallInt>", "Vec<i128>"),
    ("Vec<Option<Nat>>", "Vec<Option<Int>>"),
    ("BTreeMap<String,SmallNat>", "BTreeMap<String,i128>"),
    ("BtA", "BtB"),
    ("BtB", "BtA"),
    ("BtC", "BtD"),
    ("BtD", "BtC"),
    ("Vec<BtA>", "Vec<BtB>"),
    ("Option<SmallCfg>", "Option<WideCfg>"),
    ("Vec<Option<SmallCfg>>", "Vec<Option<WideCfg>>"),
    ("SmallCfg", "Option<WideCfg>"),
    ("RecV2", "RecV3"),
    ("RecV1", "RecV2"),
    ("(Nat,String,u8)", "(Int,Option<String>)"),
    ("Option<VarV2>", "Option<VarV1>"),
];

const METER_TYPES: [&str; 49] = [
    "BtA", "BtB", "BtC", "BtD", "SmallCfg", "WideCfg", "Option<WideCfg>", "Wide", "Vec<Box<u64>>",
    "Vec<()>", "Vec<Reserved>", "Vec<Unit0>", "Vec<u8>", "Vec<Nat>", "Vec<Int>", "Vec<String>", "Vec<Option<Nat>>", "BTreeMap<String,Nat>", "BTreeMap<String,Int>", "BTreeMap<Nat,Nat>", "BTreeMap<Int,Nat>", "BTreeMap<String,S1>", "S1", "S2", "E1", "RecV1", "RecV2",
    "RecV3", "Option<VarV1>", "Option<VarV2>", "(Nat,String,u8)", "(Int,Option<String>)", "FuncRef", "ServRef", "Principal", "List", "Rose", "Expr", "Vec<List>", "ByteBuf", "Bytes1", "Vec<Vec<u8>>", "Vec<(Nat,Int)>", "HashMap<String,Nat>", "Vec<f64>", "Vec<bool>",
    "Vec<u64>", "Option<Option<Nat>>", "Result<Nat,String>",
];

pub fn generate(_prop: &str, _tier: Tier, seed: u64, run: u64) -> Sc {
    let rng = Rng::new(mix(seed, &["C07", "wire"], run));
    let mut knobs = rng.split("knobs");
    let mut wl = rng.split("workload");
    let stack_kib = *knobs.pick(&[1024usize, 8192]);
    let mut cases = Vec::new();
    let n = knobs.range(1, 3);
    for _ in 0..n {
        if wl.chance(1, 2) {
            // native
            let corp = corpus::corpus();
            let (sender, receiver) = if wl.chance(1, 5) {
                let (a, b) = *wl.pick(&PAIRS);
                (a.to_string(), b.to_string())
            } else {
                let sender = if wl.chance(2, 3) { wl.pick(&METER_TYPES).to_string() } else { corp[wl.usize(corp.len())].name.clone() };
                let receiver = match wl.below(4) {
                    0 | 1 => sender.clone(),
                    2 => wl.pick(&METER_TYPES).to_string(),
                    _ => corp[wl.usize(corp.len())].name.clone(),
                };
                (sender, receiver)
            };
            let extra = if wl.chance(1, 3) { Some(wl.pick(&METER_TYPES).to_string()) } else { None };
            let mut size = if wl.chance(1, 4) { wl.range(15, 60) } else { wl.range(0, 14) } as usize;
            // containers read at a different element type: long enough for a per-element mischarge
            // that grows with the position to exceed the constant factor of the model
            if sender != receiver && (sender.starts_with("Vec<") || sender.starts_with("BTreeMap<")) && wl.chance(1, 2) {
                size = wl.range(40, 60) as usize;
            }
            cases.push(Case::Native { sender, receiver, vseed: wl.next_u64(), size, extra });
        } else if wl.chance(1, 8) {
            // a cheap wire value under opt against a wide expected record: the typed attempt walks
            // many expected-only optional fields before it meets the mismatch and back-tracks
            let n = wl.range(3, 40) as u32;
            let key = SLabel::Id(1000 + wl.below(5) as u32);
            let wire = SType::opt(SType::record(vec![(key.clone(), SType::Prim(Prim::Text))]));
            let mut fs: Vec<(SLabel, SType)> = (0..n).map(|i| (SLabel::Id(i), SType::opt(SType::Prim(Prim::Nat)))).collect();
            fs.push((key.clone(), SType::Prim(Prim::Nat)));
            let expect = SType::opt(SType::record(fs));
            let val = AV::some(AV::Record(vec![(key.id(), AV::Text(gen_text(&mut wl)))]));
            let tail_t = SType::vec(SType::Prim(Prim::Nat64));
            let tail_v = AV::Vec((0..wl.range(0, 30)).map(|_| AV::NatN(64, wl.next_u64())).collect());
            cases.push(Case::Untyped { env: SEnv::new(), wire: vec![wire, tail_t.clone()], expect: vec![expect, tail_t], vals: vec![val, tail_v], no_type: false });
        } else {
            let mut k = TyKnobs::draw(&mut knobs);
            k.allow_empty = false;
            k.defs = knobs.range(0, 4) as usize;
            let env = gen_env(&mut wl, &k);
            let vg = ValGen::new(&env, 140);
            let nargs = wl.range(1, 3) as usize;
            let mut wire = Vec::new();
            let mut vals = Vec::new();
            for _ in 0..nargs {
                for _ in 0..6 {
                    let t = match wl.below(8) {
                        0 => SType::vec(SType::Prim(Prim::Null)),
                        1 => SType::vec(SType::record(vec![])),
                        2 => SType::vec(SType::Prim(Prim::Reserved)),
                        _ => gen_data_type(&mut wl, &k, &env),
                    };
                    if vg.inhabited(&t) && !crate::engines::wire04::mentions_uninhabited_record_in_reference(&env, std::iter::once(&t)) {
                        let mut b = wl.range(1, 60) as isize;
                        if let Some(v) = vg.gen(&mut wl, &t, &mut b) {
                            wire.push(t);
                            vals.push(v);
                            break;
                        }
                    }
                }
            }
            if wire.is_empty() {
                continue;
            }
            // expected types: the same, an upgraded reading (surplus fields/arguments, mismatched options), or fewer/more arguments
            let mut expect: Vec<SType> = wire
                .iter()
                .map(|t| match wl.below(5) {
                    0 | 1 => t.clone(),
                    2 => upgrade_step(&mut wl, &env, t, false, &k.prims).0,
                    3 => mutate(&mut wl, t, &k.prims),
                    _ => SType::opt(t.clone()),
                })
                .collect();
            match wl.below(6) {
                0 if expect.len() > 1 => {
                    expect.pop(); // surplus argument on the wire
                }
                1 => expect.push(SType::opt(SType::Prim(Prim::Nat))), // missing optional argument
                _ => {}
            }
            // sometimes the receiver has no expected type at all
            let no_type = wl.chance(1, 6);
            let expect = if no_type { wire.clone() } else { expect };
            cases.push(Case::Untyped { env, wire, expect, vals, no_type: no_type });
        }
    }
    Sc { stack_kib, cases, qseed: knobs.next_u64() }
}

// ---------------------------------------------------------------- documented cost model

fn label_len(l: &SLabel) -> f64 {
    match l {
        SLabel::Id(_) => 4.0,
        SLabel::Named(s) => s.len() as f64,
    }
}

/// C(v : t) as documented with DecoderConfig::set_decoding_quota
fn model_cost(env: &SEnv, v: &AV, t: &SType, table_len: f64) -> f64 {
    let t = env.unfold(t);
    match (v, t) {
        (AV::Nat(s), _) => leb_min(&BigU::from_decimal(s).unwrap_or_default()).len() as f64,
        (AV::Int(s), _) => sleb_min(&BigI::from_decimal(s).unwrap_or(BigI::new(false, BigU::zero()))).len() as f64,
        (AV::NatN(b, _), _) | (AV::IntN(b, _), _) => *b as f64 / 8.0,
        (AV::F32(_), _) => 4.0,
        (AV::F64(_), _) => 8.0,
        (AV::Bool(_), _) | (AV::Null, _) | (AV::Reserved, _) => 1.0,
        (AV::Text(s), _) => 1.0 + s.len() as f64,
        (AV::Opt(None), _) => 2.0,
        (AV::Opt(Some(x)), SType::Opt(it)) => 2.0 + model_cost(env, x, it, table_len),
        (AV::Vec(xs), SType::Vec(it)) => 2.0 + 3.0 * xs.len() as f64 + xs.iter().map(|x| model_cost(env, x, it, table_len)).sum::<f64>(),
        (AV::Record(fs), SType::Record(ts)) => 2.0 + fs.iter().zip(ts.iter()).map(|((_, x), (l, ft))| 7.0 + label_len(l) + model_cost(env, x, ft, table_len)).sum::<f64>(),
        (AV::Variant(i, x), SType::Variant(ts)) => match ts.iter().find(|(l, _)| l.id() == *i) {
            Some((l, ft)) => 2.0 + 5.0 + label_len(l) + model_cost(env, x, ft, table_len),
            None => 7.0,
        },
        (AV::Principal(b), _) => (b.len() as f64).max(30.0),
        (AV::Service(b), _) => 2.0 + (b.len() as f64).max(30.0) + table_len,
        (AV::Func(b, m), _) => 2.0 + (b.len() as f64).max(30.0) + 1.0 + m.len() as f64 + table_len,
        _ => 1.0,
    }
}

#[derive(Default, Debug)]
struct Walk {
    /// documented-model cost of what the receiver materialises
    m: f64,
    /// documented-model cost of what the receiver skips (surplus fields, contents of options that came back null, values read at reserved)
    s: f64,
    /// options whose content was on the wire but came back null (back-tracking)
    bt: f64,
    /// expected-only fields filled with null
    absent: f64,
}

/// Walk the wire value along the decoded value: which parts were materialised, which skipped?
fn walk(env: &SEnv, wv: &AV, wt: &SType, dv: &AV, tl: f64, w: &mut Walk) {
    let wt = env.unfold(wt);
    match (wv, wt, dv) {
        (AV::Reserved, _, AV::Reserved) => w.m += 1.0,
        (_, _, AV::Reserved) => w.s += model_cost(env, wv, wt, tl),
        (AV::Opt(Some(x)), SType::Opt(it), AV::Opt(Some(y))) => {
            w.m += 2.0;
            walk(env, x, it, y, tl, w);
        }
        (AV::Opt(Some(x)), SType::Opt(it), AV::Opt(None)) => {
            w.m += 2.0;
            w.bt += 1.0;
            // the typed attempt may have consumed up to the whole content before failing
            w.m += model_cost(env, x, it, tl);
            w.s += model_cost(env, x, it, tl);
        }
        (AV::Opt(None), _, _) | (AV::Null, _, AV::Opt(None)) | (AV::Null, _, AV::Null) => w.m += 2.0,
        (x, _, AV::Opt(Some(y))) if !matches!(x, AV::Opt(_)) => {
            w.m += 2.0;
            walk(env, x, wt, y, tl, w);
        }
        (x, _, AV::Opt(None)) if !matches!(x, AV::Opt(_)) => {
            w.m += 2.0;
            w.bt += 1.0;
            w.m += model_cost(env, x, wt, tl);
            w.s += model_cost(env, x, wt, tl);
        }
        (AV::Vec(xs), SType::Vec(it), AV::Vec(ys)) if xs.len() == ys.len() => {
            w.m += 2.0 + 3.0 * xs.len() as f64;
            for (x, y) in xs.iter().zip(ys.iter()) {
                walk(env, x, it, y, tl, w);
            }
        }
        (AV::Record(fs), SType::Record(ts), AV::Record(gs)) => {
            w.m += 2.0;
            for ((id, x), (l, ft)) in fs.iter().zip(ts.iter()) {
                match gs.iter().find(|(j, _)| j == id) {
                    Some((_, y)) => {
                        w.m += 7.0 + label_len(l);
                        walk(env, x, ft, y, tl, w);
                    }
                    None => w.s += 7.0 + label_len(l) + model_cost(env, x, ft, tl),
                }
            }
            for (j, _) in gs {
                if !fs.iter().any(|(id, _)| id == j) {
                    w.absent += 1.0;
                }
            }
        }
        (AV::Variant(i, x), SType::Variant(ts), AV::Variant(j, y)) if i == j => match ts.iter().find(|(l, _)| l.id() == *i) {
            Some((l, ft)) => {
                w.m += 7.0 + label_len(l);
                walk(env, x, ft, y, tl, w);
            }
            None => w.m += model_cost(env, wv, wt, tl),
        },
        _ => w.m += model_cost(env, wv, wt, tl),
    }
}

/// nodes of the wire value that the receiver certainly skips: surplus record fields
fn surely_skipped(env: &SEnv, v: &AV, wt: &SType, et: &SType) -> usize {
    let (wt, et) = (env.unfold(wt), env.unfold(et));
    match (v, wt, et) {
        (AV::Record(fs), SType::Record(_), SType::Record(es)) => fs
            .iter()
            .map(|(id, x)| match es.iter().find(|(l, _)| l.id() == *id) {
                None => x.nodes(),
                Some(_) => 0,
            })
            .sum(),
        _ => 0,
    }
}

// ---------------------------------------------------------------- execution

#[derive(Default)]
struct Local {
    events: Vec<String>,
    viol: Vec<(String, String, String)>,
    probes: BTreeMap<String, u64>,
    ops: BTreeMap<String, u64>,
    faults: BTreeMap<String, u64>,
    states: Vec<u64>,
    maxima: BTreeMap<String, f64>,
    abort_points: u64,
    exhaustive_msgs: u64,
    sampled_msgs: u64,
    nontrivial: bool,
}
impl Local {
    fn probe(&mut self, k: &str) {
        *self.probes.entry(k.to_string()).or_insert(0) += 1;
    }
    fn v(&mut self, inv: &str, key: String, detail: String) {
        self.viol.push((inv.to_string(), key, detail));
    }
    fn max(&mut self, k: &str, x: f64) {
        let e = self.maxima.entry(k.to_string()).or_insert(x);
        if x > *e {
            *e = x;
        }
    }
}

const BIG: usize = 1 << 60;
/// marker: this quota is not configured
const NONE: usize = usize::MAX;

#[derive(Clone, Debug, PartialEq)]
enum Res {
    /// canonical abstract values
    Ok(Vec<AV>),
    /// error chain text
    Err(String),
    Panic(String),
}

struct Decoder<'a> {
    kind: &'a Case,
    bytes: Vec<u8>,
    tenv: TypeEnv,
    ttys: Vec<candid::types::Type>,
    recv: Option<&'static corpus::DynType>,
}

impl Decoder<'_> {
    /// decode under quotas; returns the result and the reported (decoding, skipping) cost
    fn run(&self, qd: Option<usize>, qs: Option<usize>) -> (Res, Option<usize>, Option<usize>) {
        let mut cfg = DecoderConfig::new();
        if let Some(q) = qd {
            cfg.set_decoding_quota(q);
        }
        if let Some(q) = qs {
            cfg.set_skipping_quota(q);
        }
        match self.kind {
            Case::Untyped { no_type, .. } => {
                let r = guard(|| -> Result<(Vec<AV>, Option<usize>, Option<usize>), String> {
                    let mut de = IDLDeserialize::new_with_config(&self.bytes, &cfg).map_err(corpus::err_chain)?;
                    let mut out = Vec::new();
                    if *no_type {
                        while !de.is_done() {
                            out.push(from_idl(&de.get_value::<candid::IDLValue>().map_err(corpus::err_chain)?));
                        }
                    } else {
                        for t in &self.ttys {
                            out.push(from_idl(&de.get_value_with_type(&self.tenv, t).map_err(corpus::err_chain)?));
                        }
                    }
                    de.done().map_err(corpus::err_chain)?;
                    let cost = de.get_config().compute_cost(&cfg);
                    Ok((out, cost.decoding_quota, cost.skipping_quota))
                });
                match r {
                    Guarded::Done(Ok((v, a, b))) => (Res::Ok(v), a, b),
                    Guarded::Done(Err(e)) => (Res::Err(e), None, None),
                    Guarded::Panicked(m) => (Res::Panic(m), None, None),
                }
            }
            Case::Native { .. } => {
                let d = self.recv.unwrap();
                match guard(|| (d.decode_cfg)(&self.bytes, &cfg)) {
                    Guarded::Done(Ok((v, a, b))) => (Res::Ok(vec![(d.av)(v.as_ref(), true)]), a, b),
                    Guarded::Done(Err(e)) => (Res::Err(e), None, None),
                    Guarded::Panicked(m) => (Res::Panic(m), None, None),
                }
            }
        }
    }
}

fn is_quota_error(e: &str) -> bool {
    e.contains("Decoding cost exceeds the limit") || e.contains("Skipping cost exceeds the limit")
}

fn check_case(l: &mut Local, case: &Case, qrng: &mut Rng, log: bool) {
    // ---- build the honest message
    let (bytes, n_nodes, desc, identity, model, skip_lb): (Vec<u8>, usize, String, bool, Option<f64>, usize);
    // for the walk: environment, (wire type, wire value) per argument, header length, table length, untyped API?, order preserving?
    let mut wenv = SEnv::new();
    let mut wargs: Vec<(SType, AV)> = Vec::new();
    let (mut hdr, mut tlen) = (0.0f64, 0.0f64);
    let untyped_api = matches!(case, Case::Untyped { .. });
    let mut order_preserving = true;
    // size of the expected types: the work of a typed attempt that fails and back-tracks is bounded by it
    let mut et_nodes = 0.0f64;
    let mut recv = None;
    let mut tenv = TypeEnv::new();
    let mut ttys = Vec::new();
    match case {
        Case::Untyped { env, wire, expect, vals, no_type } => {
            if !env_closed(env) || wire.iter().chain(expect.iter()).any(|t| !closed(env, t)) || wire.len() != vals.len() {
                return;
            }
            tenv = to_env(env);
            let wt: Vec<_> = wire.iter().map(to_type).collect();
            let args = IDLArgs::new(&vals.iter().map(to_idl).collect::<Vec<_>>());
            bytes = match guard(|| args.to_bytes_with_types(&tenv, &wt)) {
                Guarded::Done(Ok(b)) => b,
                _ => {
                    l.probe("sender_encode_failed");
                    return;
                }
            };
            ttys = expect.iter().map(to_type).collect();
            n_nodes = vals.iter().map(|v| v.nodes()).sum();
            desc = format!("{} ({}) at ({})", if *no_type { "untyped-without-type" } else { "untyped" }, wire.iter().map(show_type).collect::<Vec<_>>().join(", "), expect.iter().map(show_type).collect::<Vec<_>>().join(", "));
            identity = wire == expect || *no_type;
            // the untyped API is charged as "skipping" throughout: 50x in the decoding quota
            let table_len = crate::models::rd::parse(&bytes).map(|p| p.table.len()).unwrap_or(0) as f64;
            let header = crate::models::rd::parse(&bytes).map(|p| p.header_len).unwrap_or(0) as f64;
            model = if identity { Some(4.0 * header + 50.0 * vals.iter().zip(wire.iter()).map(|(v, t)| model_cost(env, v, t, table_len)).sum::<f64>()) } else { None };
            skip_lb = n_nodes; // everything counts towards the skipping quota in the untyped API
            wenv = env.clone();
            et_nodes = expect.iter().map(|t| t.nodes() as f64).sum::<f64>() + env.0.values().map(|t| t.nodes() as f64).sum::<f64>();
            wargs = wire.iter().cloned().zip(vals.iter().cloned()).collect();
            hdr = header;
            tlen = table_len;
        }
        Case::Native { sender, receiver, vseed, size, extra } => {
            let (Some(s), Some(r)) = (corpus::find(sender), corpus::find(receiver)) else { return };
            let mut rng = Rng::new(*vseed);
            let v = (s.gen)(&mut rng, *size);
            let mut b = candid::ser::IDLBuilder::new();
            if guard(|| (s.arg)(&mut b, v.as_ref())).is_err_or_panic() {
                l.probe("sender_encode_failed");
                return;
            }
            let mut nodes = (s.av)(v.as_ref(), false).nodes();
            let mut extra_nodes = 0;
            let mut extra_arg: Option<(&corpus::DynType, AV)> = None;
            if let Some(x) = extra.as_ref().and_then(|n| corpus::find(n)) {
                let xv = (x.gen)(&mut rng, *size);
                if guard(|| (x.arg)(&mut b, xv.as_ref())).is_err_or_panic() {
                    l.probe("sender_encode_failed");
                    return;
                }
                extra_nodes = (x.av)(xv.as_ref(), false).nodes();
                nodes += extra_nodes;
                extra_arg = Some((x, (x.av)(xv.as_ref(), false)));
            }
            bytes = match guard(|| b.serialize_to_vec()) {
                Guarded::Done(Ok(b)) => b,
                _ => {
                    l.probe("sender_encode_failed");
                    return;
                }
            };
            recv = Some(r);
            n_nodes = nodes;
            desc = format!("native {sender}{} at {receiver}", extra.as_ref().map(|x| format!(" + surplus {x}")).unwrap_or_default());
            identity = sender == receiver && extra.is_none();
            let mut senv = SEnv::new();
            let st = (s.sim_type)(&mut senv);
            let parsed = crate::models::rd::parse(&bytes).ok();
            let table_len = parsed.as_ref().map(|p| p.table.len()).unwrap_or(0) as f64;
            let header = parsed.as_ref().map(|p| p.header_len).unwrap_or(0) as f64;
            // A native `Reserved` is read by skipping the wire value (its Deserialize impl calls
            // deserialize_ignored_any so that it also works with other serde formats), which the
            // decoder charges as skipped data (50x): outside the documented model for materialised values.
            model = if identity && !senv.mentions(&st, Prim::Reserved) { Some(4.0 * header + model_cost(&senv, &(s.av)(v.as_ref(), false), &st, table_len)) } else { None };
            let mut renv = senv.clone();
            let rt = (r.sim_type)(&mut renv);
            wargs.push((st.clone(), (s.av)(v.as_ref(), false)));
            // the surplus argument is skipped entirely: the walk below finds no decoded value for it
            // and books its documented cost as skipped
            if let Some((x, xav)) = extra_arg {
                let xt = (x.sim_type)(&mut senv);
                wargs.push((xt, xav));
            }
            wenv = senv.clone();
            hdr = header;
            tlen = table_len;
            let unordered = |n: &str| n.contains("Hash") || n.contains("BTreeSet") || n.contains("BTreeMap") || n.contains("Reserved");
            order_preserving = (!(unordered(sender) || unordered(receiver)) || sender == receiver) && !sender.contains("Reserved") && !receiver.contains("Reserved");
            et_nodes = rt.nodes() as f64 + renv.0.values().map(|t| t.nodes() as f64).sum::<f64>();
            skip_lb = extra_nodes + if gfp::subtype(&renv, &st, &rt) { surely_skipped(&renv, &(s.av)(v.as_ref(), false), &st, &rt) } else { 0 };
        }
    }
    let dec = Decoder { kind: case, bytes: bytes.clone(), tenv, ttys, recv };
    let key = format!("{desc} msg={}", crate::engines::stream::hex(&bytes));
    *l.ops.entry("deliveries".into()).or_insert(0) += 1;
    // ---- 1. unmetered
    let (r0, _, _) = dec.run(None, None);
    if let Res::Panic(m) = &r0 {
        l.v("decode-no-panic", format!("{desc}@{}", panic_key(m)), format!("unmetered decode panicked: {m}; {key}"));
        return;
    }
    // ---- 2. huge quotas: same result, and a cost
    let (r1, cd, cs) = dec.run(Some(BIG), Some(BIG));
    if log {
        l.events.push(format!("{desc}: unmetered={} cost={:?}/{:?}", if matches!(r0, Res::Ok(_)) { "ok" } else { "err" }, cd, cs));
    }
    match (&r0, &r1) {
        (Res::Ok(a), Res::Ok(b)) => {
            if a != b {
                l.v("quota-never-changes-result", key.clone(), format!("with both quotas at 2^60 the decode returned {} instead of {}", b.iter().map(|x| x.brief()).collect::<Vec<_>>().join(","), a.iter().map(|x| x.brief()).collect::<Vec<_>>().join(",")));
                return;
            }
        }
        (Res::Ok(_), other) => {
            l.v("quota-never-changes-result", key.clone(), format!("unmetered decode succeeds but with both quotas at 2^60 it gives {other:?}"));
            return;
        }
        (Res::Err(_), Res::Ok(_)) => {
            l.v("quota-never-changes-result", key.clone(), "unmetered decode fails but the metered one succeeds".to_string());
            return;
        }
        (Res::Err(_), _) => {
            // the message does not decode at these types (unrelated types): under any quota it must stay an error
            l.probe("delivery_does_not_decode");
            for q in [0usize, 1, 7, 100, 10_000] {
                let (r, _, _) = dec.run(Some(q), Some(q));
                l.abort_points += 1;
                match r {
                    Res::Ok(_) => l.v("quota-never-changes-result", key.clone(), format!("unmetered decode fails but with quotas {q}/{q} it succeeds")),
                    Res::Panic(m) => l.v("decode-no-panic", format!("{desc}@{}", panic_key(&m)), format!("decode with quotas {q}/{q} panicked: {m}; {key}")),
                    Res::Err(_) => {}
                }
            }
            return;
        }
        (Res::Panic(_), _) => return,
    }
    let (Some(cd), Some(cs)) = (cd, cs) else {
        l.v("cost-reported", key, "a metered decode succeeded without reporting its cost".into());
        return;
    };
    l.nontrivial = true;
    l.states.push(fnv1a(format!("{desc}|{cd}|{cs}").as_bytes()));
    // ---- 4./5. cost bounds
    if cd < n_nodes {
        l.v("cost-at-least-values", key.clone(), format!("decoding cost {cd} is below the number of values on the wire ({n_nodes}): some values are free"));
    }
    // every byte of the value section that was read (decoded, validated, copied or skipped) is work:
    // a successful decode cannot cost (much) less than the bytes it consumed
    let value_bytes = bytes.len().saturating_sub(crate::models::rd::parse(&bytes).map(|p| p.header_len).unwrap_or(bytes.len()));
    l.max("value_bytes_over_cost", value_bytes as f64 / (cd as f64 + 1.0));
    // (on the unchanged tree every byte is charged at least once: largest observed bytes/cost is 0.83)
    if (value_bytes as f64) > 1.25 * cd as f64 + 32.0 {
        l.v("cost-at-least-bytes-read", key.clone(), format!("decoding cost {cd} although {value_bytes} bytes of values were read: part of the input is processed free of charge"));
    }
    if cs < skip_lb {
        l.v("skipped-data-charged-to-skipping-quota", key.clone(), format!("skipping cost {cs} is below the number of skipped values ({skip_lb})"));
    }
    if let Some(m) = model {
        let ratio = cd as f64 / m.max(1.0);
        l.max("cost_over_documented_model", ratio);
        if ratio > 2.5 && std::env::var_os("SIM_C07_DEBUG").is_some() {
            eprintln!("RATIO {ratio:.2} cd={cd} model={m:.0} {desc}");
        }
        if ratio > K_MODEL {
            l.v("cost-within-documented-model", key.clone(), format!("decoding cost {cd} is {ratio:.1}x the documented model ({m:.0}); a quota sized from the model would reject this honest message"));
        }
    }
    // ---- 5b. bounds from walking the wire value along the decoded value (which parts were skipped?)
    if let (Res::Ok(decoded), true) = (&r0, order_preserving) {
        let mut w = Walk::default();
        for (i, (wt, wv)) in wargs.iter().enumerate() {
            match decoded.get(i) {
                Some(dv) => walk(&wenv, wv, wt, dv, tlen, &mut w),
                None => w.s += model_cost(&wenv, wv, wt, tlen), // surplus argument
            }
        }
        let extra_s = 0.0;
        let (m_model, s_model) = if untyped_api { (0.0, w.m + w.s) } else { (w.m, w.s) };
        let mult = if untyped_api { 50.0 } else { 1.0 };
        // a failed typed attempt may have walked the expected type (expected-only optional fields) before back-tracking
        let attempt = 8.0 * et_nodes * w.bt;
        let s_bound = if untyped_api { f64::INFINITY } else { K_MODEL * (s_model + extra_s) + 10.0 * w.bt + 60.0 };
        let d_bound = K_MODEL * (4.0 * hdr + m_model + 50.0 * (s_model + extra_s) + 10.0 * w.bt + mult * (attempt + 8.0 * w.absent)) + 60.0;
        l.max("skip_cost_over_skipped_model", cs as f64 / (s_model + extra_s + 1.0));
        if (cs as f64) > s_bound {
            l.v(
                "materialised-data-not-charged-to-skipping-quota",
                key.clone(),
                format!("skipping cost {cs} although the documented model of what was skipped (surplus fields/arguments, contents of options that came back null) is only {s_model:.0}: data that was materialised is being charged to the skipping quota"),
            );
        }
        if (cd as f64) > d_bound {
            l.v(
                "cost-within-documented-model",
                key.clone(),
                format!("decoding cost {cd} exceeds {K_MODEL} x the documented model (header {hdr:.0}x4 + materialised {m_model:.0} + 50 x skipped {s_model:.0} + {} back-tracks)", w.bt),
            );
        }
    }
    // ---- 3. enumerate abort points
    let expect_ok = |qd: usize, qs: usize| qd >= cd && qs >= cs;
    let mut points: Vec<(usize, usize)> = Vec::new();
    let mut axis = |c: usize, qrng: &mut Rng| -> (Vec<usize>, bool) {
        if c <= ENUM_LIMIT {
            ((0..=c + 1).collect(), true)
        } else {
            let mut v = vec![0, 1, c - 1, c, c + 1];
            for _ in 0..64 {
                v.push(qrng.below(c as u64 + 2) as usize);
            }
            (v, false)
        }
    };
    let (ad, full_d) = axis(cd, qrng);
    let (as_, full_s) = axis(cs, qrng);
    for q in &ad {
        points.push((*q, BIG));
    }
    for q in &as_ {
        points.push((BIG, *q));
    }
    for qd in [cd.saturating_sub(1), cd, cd + 1] {
        for qs in [cs.saturating_sub(1), cs, cs + 1] {
            points.push((qd, qs));
        }
    }
    // only one of the two quotas set (NONE = the other quota is not configured at all)
    for q in ad.iter().rev().take(3).chain(ad.iter().take(2)) {
        points.push((*q, NONE));
    }
    for q in as_.iter().rev().take(3).chain(as_.iter().take(2)) {
        points.push((NONE, *q));
    }
    if cs > 2 {
        points.push((NONE, cs / 2));
    }
    if cd > 2 {
        points.push((cd / 2, NONE));
    }
    if full_d && full_s {
        l.exhaustive_msgs += 1;
    } else {
        l.sampled_msgs += 1;
    }
    for (qd, qs) in points {
        l.abort_points += 1;
        let opt = |q: usize| if q == NONE { None } else { Some(q) };
        let (r, rd, rs) = dec.run(opt(qd), opt(qs));
        let want_ok = (qd == NONE || qd >= cd) && (qs == NONE || qs >= cs);
        let _ = &expect_ok;
        match r {
            Res::Panic(m) => {
                l.v("decode-no-panic", format!("{desc}@{}", panic_key(&m)), format!("decode with quotas {qd}/{qs} panicked: {m}; {key}"));
                return;
            }
            Res::Ok(v) => {
                if !want_ok {
                    l.v("quota-bounds-the-work", key.clone(), format!("decode succeeded with quotas {}/{} although its cost is {cd}/{cs}", show_q(qd), show_q(qs)));
                    return;
                }
                if Res::Ok(v) != r0 {
                    l.v("quota-never-changes-result", key.clone(), format!("with quotas {}/{} the decode returned a different value", show_q(qd), show_q(qs)));
                    return;
                }
                if (qd != NONE && rd != Some(cd)) || (qs != NONE && rs != Some(cs)) {
                    l.v("cost-independent-of-quota", key.clone(), format!("reported cost {rd:?}/{rs:?} with quotas {}/{}, but {cd}/{cs} with large quotas", show_q(qd), show_q(qs)));
                    return;
                }
            }
            Res::Err(e) => {
                *l.faults.entry("quota_abort_fired".into()).or_insert(0) += 1;
                if want_ok {
                    l.v("success-monotone-in-quota", key.clone(), format!("decode failed with quotas {}/{} although its cost is only {cd}/{cs}: {e}", show_q(qd), show_q(qs)));
                    return;
                }
                if !is_quota_error(&e) {
                    l.v("quota-error-or-same-result", key.clone(), format!("with quotas {}/{} (cost {cd}/{cs}) the decode failed with something other than a quota error: {e}", show_q(qd), show_q(qs)));
                    return;
                }
            }
        }
    }
}

fn show_q(q: usize) -> String {
    if q == NONE {
        "unset".into()
    } else if q == BIG {
        "2^60".into()
    } else {
        q.to_string()
    }
}

trait ErrOrPanic {
    fn is_err_or_panic(&self) -> bool;
}
impl<T> ErrOrPanic for Guarded<Result<T, String>> {
    fn is_err_or_panic(&self) -> bool {
        !matches!(self, Guarded::Done(Ok(_)))
    }
}

fn run(sc: &Sc, log: bool) -> Local {
    let mut l = Local::default();
    for k in ["sender_encode_failed", "delivery_does_not_decode"] {
        l.probes.entry(k.to_string()).or_insert(0);
    }
    let mut qrng = Rng::new(sc.qseed);
    for c in &sc.cases {
        check_case(&mut l, c, &mut qrng, log);
    }
    l
}

pub fn execute(sc: &Sc, ctx: &mut Ctx) -> Result<(), String> {
    let sc2 = sc.clone();
    let l = on_thread(sc.stack_kib * 1024, move || run(&sc2, true)).map_err(|e| format!("wire engine (C07) panicked outside a guarded call: {e}"))?;
    for e in &l.events {
        ctx.ev(e);
    }
    for (k, n) in &l.probes {
        ctx.stats.probe_n(k, *n);
    }
    for (k, n) in &l.ops {
        *ctx.stats.ops.entry(k.clone()).or_insert(0) += n;
    }
    for (k, n) in &l.faults {
        ctx.stats.fault(k, *n);
    }
    for h in &l.states {
        ctx.stats.state(*h);
    }
    for (k, v) in &l.maxima {
        ctx.stats.max(k, *v);
    }
    ctx.stats.steps += l.abort_points;
    *ctx.stats.ops.entry("abort_points_enumerated".into()).or_insert(0) += l.abort_points;
    *ctx.stats.exhaustive_parts.entry("messages_with_every_abort_point_enumerated".into()).or_insert(0) += l.exhaustive_msgs;
    *ctx.stats.exhaustive_parts.entry("messages_with_sampled_abort_points".into()).or_insert(0) += l.sampled_msgs;
    if l.nontrivial {
        ctx.stats.nontrivial_runs += 1;
    }
    if ctx.stats.samples.len() < 6 {
        if let Some(e) = l.events.first() {
            ctx.stats.sample(serde_json::json!({"delivery": e, "abort_points": l.abort_points}));
        }
    }
    for (inv, key, detail) in l.viol {
        ctx.violate(&inv, &key, detail);
    }
    Ok(())
}

pub fn size(sc: &Sc) -> usize {
    sc.cases
        .iter()
        .map(|c| match c {
            Case::Untyped { env, wire, expect, vals, no_type } => 2 + env.0.values().map(|t| t.nodes()).sum::<usize>() + wire.iter().chain(expect.iter()).map(|t| t.nodes()).sum::<usize>() + vals.iter().map(|v| v.nodes()).sum::<usize>(),
            Case::Native { size, extra, .. } => 3 + size + extra.is_some() as usize,
        })
        .sum()
}

pub fn shrink(sc: &Sc) -> Vec<Sc> {
    let mut out = Vec::new();
    if sc.cases.len() > 1 {
        for i in 0..sc.cases.len() {
            let mut s = sc.clone();
            s.cases = vec![sc.cases[i].clone()];
            out.push(s);
        }
        return out;
    }
    if let Some(c) = sc.cases.first() {
        match c {
            Case::Native { sender, receiver, vseed, size, extra } => {
                if extra.is_some() {
                    let mut s = sc.clone();
                    s.cases[0] = Case::Native { sender: sender.clone(), receiver: receiver.clone(), vseed: *vseed, size: *size, extra: None };
                    out.push(s);
                }
                if *size > 0 {
                    let mut s = sc.clone();
                    s.cases[0] = Case::Native { sender: sender.clone(), receiver: receiver.clone(), vseed: *vseed, size: size / 2, extra: extra.clone() };
                    out.push(s);
                }
                if sender != receiver {
                    let mut s = sc.clone();
                    s.cases[0] = Case::Native { sender: sender.clone(), receiver: sender.clone(), vseed: *vseed, size: *size, extra: extra.clone() };
                    out.push(s);
                }
            }
            Case::Untyped { env, wire, expect, vals, no_type } => {
                // drop an argument
                if wire.len() > 1 {
                    for i in 0..wire.len() {
                        let mut w = wire.clone();
                        let mut v = vals.clone();
                        let mut e = expect.clone();
                        w.remove(i);
                        v.remove(i);
                        if i < e.len() {
                            e.remove(i);
                        }
                        let mut s = sc.clone();
                        s.cases[0] = Case::Untyped { env: env.clone(), wire: w, expect: e, vals: v, no_type: *no_type };
                        out.push(s);
                    }
                }
                // expect exactly the wire types
                if wire != expect {
                    let mut s = sc.clone();
                    s.cases[0] = Case::Untyped { env: env.clone(), wire: wire.clone(), expect: wire.clone(), vals: vals.clone(), no_type: *no_type };
                    out.push(s);
                }
                // shrink vectors inside values
                for i in 0..vals.len() {
                    if let Some(v2) = shrink_av(&vals[i]) {
                        let mut v = vals.clone();
                        v[i] = v2;
                        let mut s = sc.clone();
                        s.cases[0] = Case::Untyped { env: env.clone(), wire: wire.clone(), expect: expect.clone(), vals: v, no_type: *no_type };
                        out.push(s);
                    }
                }
            }
        }
    }
    out
}

/// a structurally smaller value of the same type: first non-empty vector loses its last element, options become none
pub fn shrink_av(v: &AV) -> Option<AV> {
    match v {
        AV::Vec(xs) if !xs.is_empty() => {
            let mut y = xs.clone();
            y.pop();
            Some(AV::Vec(y))
        }
        AV::Opt(Some(_)) => Some(AV::Opt(None)),
        AV::Record(fs) => {
            for (i, (_, x)) in fs.iter().enumerate() {
                if let Some(x2) = shrink_av(x) {
                    let mut f2 = fs.clone();
                    f2[i].1 = x2;
                    return Some(AV::Record(f2));
                }
            }
            None
        }
        AV::Variant(i, x) => shrink_av(x).map(|x2| AV::Variant(*i, Box::new(x2))),
        AV::Text(s) if !s.is_empty() => Some(AV::Text(String::new())),
        _ => None,
    }
}
