//! User-defined corpus types. Each macro invocation defines the Rust type with
//! `#[derive(CandidType, Deserialize)]` AND, from the same field list, the
//! harness-side description using the harness's own label hash — so the derive
//! macro is checked against an independent reading of the spec's mapping.

use super::SimTy;
use crate::kernel::rng::Rng;
use crate::models::gen::gen_principal;
use crate::models::stype::*;
use candid::types::reference::{Func, Service};
use candid::{define_function, define_service, CandidType, Deserialize, Int, Nat, Principal};
use std::rc::Rc;
use std::sync::Arc;

/// Register a recursive definition: if `name` is already (being) defined return
/// its name, otherwise define it.
pub fn named(env: &mut SEnv, name: &str, body: impl FnOnce(&mut SEnv) -> SType) -> SType {
    if !env.0.contains_key(name) {
        env.0.insert(name.to_string(), SType::Prim(Prim::Empty)); // placeholder while the body is computed
        let b = body(env);
        env.0.insert(name.to_string(), b);
    }
    SType::name(name)
}

fn sub(size: usize) -> usize {
    size.saturating_sub(1) / 2
}

macro_rules! sim_struct {
    ($name:ident $(<$g:ident>)? { $($f:ident : $t:ty),+ $(,)? }) => {
        #[derive(CandidType, Deserialize, Clone, Debug)]
        pub struct $name $(<$g>)? { $(pub $f: $t),+ }
        impl $(<$g: SimTy + Clone + std::fmt::Debug>)? SimTy for $name $(<$g>)? {
            fn name() -> String {
                let mut s = stringify!($name).to_string();
                $( s.push_str(&format!("<{}>", <$g as SimTy>::name())); )?
                s
            }
            fn sim_type(env: &mut SEnv) -> SType {
                SType::record(vec![$((SLabel::Named(stringify!($f).trim_start_matches("r#").to_string()), <$t as SimTy>::sim_type(env))),+])
            }
            fn gen(rng: &mut Rng, size: usize) -> Self {
                $name { $($f: <$t as SimTy>::gen(rng, sub(size))),+ }
            }
            fn av(&self, c: bool) -> AV {
                AV::record(vec![$((own_hash(stringify!($f).trim_start_matches("r#")), self.$f.av(c))),+])
            }
        }
    };
}

sim_struct!(S1 { a: u8, b: String, c: Option<Nat> });
sim_struct!(S2 { id: Principal, amount: Int, tags: Vec<String>, inner: S1, flag: bool });
sim_struct!(KeyW { r#type: u8, r#fn: Nat, r#match: Option<Int>, service: String, oneway: bool });
sim_struct!(G<T> { x: T, ys: Vec<T>, z: Option<T> });

/// unit struct: null
#[derive(CandidType, Deserialize, Clone, Debug)]
pub struct Unit0;
impl SimTy for Unit0 {
    fn name() -> String {
        "Unit0".into()
    }
    fn sim_type(_: &mut SEnv) -> SType {
        SType::Prim(Prim::Null)
    }
    fn gen(_: &mut Rng, _: usize) -> Self {
        Unit0
    }
    fn av(&self, _: bool) -> AV {
        AV::Null
    }
}

/// tuple struct: record {0; 1}
#[derive(CandidType, Deserialize, Clone, Debug)]
pub struct Pair(pub Int, pub String);
impl SimTy for Pair {
    fn name() -> String {
        "Pair".into()
    }
    fn sim_type(env: &mut SEnv) -> SType {
        SType::record(vec![(SLabel::Id(0), Int::sim_type(env)), (SLabel::Id(1), String::sim_type(env))])
    }
    fn gen(rng: &mut Rng, s: usize) -> Self {
        Pair(Int::gen(rng, s), String::gen(rng, s))
    }
    fn av(&self, c: bool) -> AV {
        AV::Record(vec![(0, self.0.av(c)), (1, self.1.av(c))])
    }
}

/// newtype struct: the inner type
#[derive(CandidType, Deserialize, Clone, Debug)]
pub struct NewT(pub Vec<Nat>);
impl SimTy for NewT {
    fn name() -> String {
        "NewT".into()
    }
    fn sim_type(env: &mut SEnv) -> SType {
        Vec::<Nat>::sim_type(env)
    }
    fn gen(rng: &mut Rng, s: usize) -> Self {
        NewT(Vec::<Nat>::gen(rng, s))
    }
    fn av(&self, c: bool) -> AV {
        self.0.av(c)
    }
}

/// serde renames, including names that are not identifiers
#[derive(CandidType, Deserialize, Clone, Debug)]
pub struct Renamed {
    #[serde(rename = "a-b")]
    pub ab: u16,
    #[serde(rename = "")]
    pub empty: Nat,
    #[serde(rename = "日本")]
    pub jp: String,
    pub plain: Option<u8>,
}
impl SimTy for Renamed {
    fn name() -> String {
        "Renamed".into()
    }
    fn sim_type(env: &mut SEnv) -> SType {
        let l = |s: &str| SLabel::Named(s.to_string());
        SType::record(vec![(l("a-b"), u16::sim_type(env)), (l(""), Nat::sim_type(env)), (l("日本"), String::sim_type(env)), (l("plain"), Option::<u8>::sim_type(env))])
    }
    fn gen(rng: &mut Rng, s: usize) -> Self {
        Renamed { ab: u16::gen(rng, s), empty: Nat::gen(rng, s), jp: String::gen(rng, s), plain: Option::<u8>::gen(rng, s) }
    }
    fn av(&self, c: bool) -> AV {
        AV::record(vec![(own_hash("a-b"), self.ab.av(c)), (own_hash(""), self.empty.av(c)), (own_hash("日本"), self.jp.av(c)), (own_hash("plain"), self.plain.av(c))])
    }
}

/// enum with unit, newtype, tuple and struct variants
#[derive(CandidType, Deserialize, Clone, Debug)]
pub enum E1 {
    Nothing,
    One(Nat),
    Two(u8, String),
    Named { x: Int, y: Option<bool> },
    #[serde(rename = "re-named")]
    Ren(Vec<u8>),
}
impl SimTy for E1 {
    fn name() -> String {
        "E1".into()
    }
    fn sim_type(env: &mut SEnv) -> SType {
        let l = |s: &str| SLabel::Named(s.to_string());
        SType::variant(vec![
            (l("Nothing"), SType::Prim(Prim::Null)),
            (l("One"), Nat::sim_type(env)),
            (l("Two"), SType::record(vec![(SLabel::Id(0), u8::sim_type(env)), (SLabel::Id(1), String::sim_type(env))])),
            (l("Named"), SType::record(vec![(l("x"), Int::sim_type(env)), (l("y"), Option::<bool>::sim_type(env))])),
            (l("re-named"), Vec::<u8>::sim_type(env)),
        ])
    }
    fn gen(rng: &mut Rng, s: usize) -> Self {
        match rng.below(5) {
            0 => E1::Nothing,
            1 => E1::One(Nat::gen(rng, s)),
            2 => E1::Two(u8::gen(rng, s), String::gen(rng, s)),
            3 => E1::Named { x: Int::gen(rng, s), y: Option::<bool>::gen(rng, s) },
            _ => E1::Ren(Vec::<u8>::gen(rng, s)),
        }
    }
    fn av(&self, c: bool) -> AV {
        match self {
            E1::Nothing => AV::Variant(own_hash("Nothing"), Box::new(AV::Null)),
            E1::One(n) => AV::Variant(own_hash("One"), Box::new(n.av(c))),
            E1::Two(a, b) => AV::Variant(own_hash("Two"), Box::new(AV::Record(vec![(0, a.av(c)), (1, b.av(c))]))),
            E1::Named { x, y } => AV::Variant(own_hash("Named"), Box::new(AV::record(vec![(own_hash("x"), x.av(c)), (own_hash("y"), y.av(c))]))),
            E1::Ren(v) => AV::Variant(own_hash("re-named"), Box::new(v.av(c))),
        }
    }
}

/// plain C-like enum, usable as key
#[derive(CandidType, Deserialize, Clone, Debug, PartialEq, Eq, PartialOrd, Ord, Hash)]
pub enum E2 {
    Red,
    Green,
    Blue,
}
impl SimTy for E2 {
    fn name() -> String {
        "E2".into()
    }
    fn sim_type(_: &mut SEnv) -> SType {
        let l = |s: &str| SLabel::Named(s.to_string());
        SType::variant(vec![(l("Red"), SType::Prim(Prim::Null)), (l("Green"), SType::Prim(Prim::Null)), (l("Blue"), SType::Prim(Prim::Null))])
    }
    fn gen(rng: &mut Rng, _: usize) -> Self {
        match rng.below(3) {
            0 => E2::Red,
            1 => E2::Green,
            _ => E2::Blue,
        }
    }
    fn av(&self, _: bool) -> AV {
        let n = match self {
            E2::Red => "Red",
            E2::Green => "Green",
            E2::Blue => "Blue",
        };
        AV::Variant(own_hash(n), Box::new(AV::Null))
    }
}

/// generic enum
#[derive(CandidType, Deserialize, Clone, Debug)]
pub enum GE<T> {
    Leaf(T),
    Many(Vec<T>),
    Nope,
}
impl<T: SimTy + Clone + std::fmt::Debug> SimTy for GE<T> {
    fn name() -> String {
        format!("GE<{}>", T::name())
    }
    fn sim_type(env: &mut SEnv) -> SType {
        let l = |s: &str| SLabel::Named(s.to_string());
        SType::variant(vec![(l("Leaf"), T::sim_type(env)), (l("Many"), SType::vec(T::sim_type(env))), (l("Nope"), SType::Prim(Prim::Null))])
    }
    fn gen(rng: &mut Rng, s: usize) -> Self {
        match rng.below(3) {
            0 => GE::Leaf(T::gen(rng, sub(s))),
            1 => GE::Many(Vec::<T>::gen(rng, sub(s))),
            _ => GE::Nope,
        }
    }
    fn av(&self, c: bool) -> AV {
        match self {
            GE::Leaf(t) => AV::Variant(own_hash("Leaf"), Box::new(t.av(c))),
            GE::Many(v) => AV::Variant(own_hash("Many"), Box::new(v.av(c))),
            GE::Nope => AV::Variant(own_hash("Nope"), Box::new(AV::Null)),
        }
    }
}

// ---------------------------------------------------------------- recursive types

#[derive(CandidType, Deserialize, Clone, Debug)]
pub struct List {
    pub head: Int,
    pub tail: Option<Box<List>>,
}
impl SimTy for List {
    fn name() -> String {
        "List".into()
    }
    fn sim_type(env: &mut SEnv) -> SType {
        named(env, "List", |env| {
            let l = |s: &str| SLabel::Named(s.to_string());
            SType::record(vec![(l("head"), Int::sim_type(env)), (l("tail"), SType::opt(List::sim_type(env)))])
        })
    }
    fn gen(rng: &mut Rng, s: usize) -> Self {
        let n = rng.range(0, s.min(12) as u64);
        let mut cur: Option<Box<List>> = None;
        for _ in 0..n {
            cur = Some(Box::new(List { head: Int::gen(rng, 1), tail: cur }));
        }
        List { head: Int::gen(rng, 1), tail: cur }
    }
    fn av(&self, c: bool) -> AV {
        AV::record(vec![(own_hash("head"), self.head.av(c)), (own_hash("tail"), self.tail.av(c))])
    }
}

/// mutually recursive pair (DESIGN.md §5 C01): A = {b: opt B; x: nat8}, B = {a: opt A; y: int}
#[derive(CandidType, Deserialize, Clone, Debug)]
pub struct MutA {
    pub b: Option<Box<MutB>>,
    pub x: u8,
}
#[derive(CandidType, Deserialize, Clone, Debug)]
pub struct MutB {
    pub a: Option<Box<MutA>>,
    pub y: Int,
}
impl SimTy for MutA {
    fn name() -> String {
        "MutA".into()
    }
    fn sim_type(env: &mut SEnv) -> SType {
        named(env, "MutA", |env| {
            let l = |s: &str| SLabel::Named(s.to_string());
            SType::record(vec![(l("b"), SType::opt(MutB::sim_type(env))), (l("x"), u8::sim_type(env))])
        })
    }
    fn gen(rng: &mut Rng, s: usize) -> Self {
        MutA { b: if s == 0 || rng.chance(1, 3) { None } else { Some(Box::new(MutB::gen(rng, s - 1))) }, x: u8::gen(rng, 0) }
    }
    fn av(&self, c: bool) -> AV {
        AV::record(vec![(own_hash("b"), self.b.av(c)), (own_hash("x"), self.x.av(c))])
    }
}
impl SimTy for MutB {
    fn name() -> String {
        "MutB".into()
    }
    fn sim_type(env: &mut SEnv) -> SType {
        named(env, "MutB", |env| {
            let l = |s: &str| SLabel::Named(s.to_string());
            SType::record(vec![(l("a"), SType::opt(MutA::sim_type(env))), (l("y"), Int::sim_type(env))])
        })
    }
    fn gen(rng: &mut Rng, s: usize) -> Self {
        MutB { a: if s == 0 || rng.chance(1, 3) { None } else { Some(Box::new(MutA::gen(rng, s - 1))) }, y: Int::gen(rng, 0) }
    }
    fn av(&self, c: bool) -> AV {
        AV::record(vec![(own_hash("a"), self.a.av(c)), (own_hash("y"), self.y.av(c))])
    }
}

#[derive(CandidType, Deserialize, Clone, Debug)]
pub struct Rose {
    pub v: u8,
    pub kids: Vec<Rose>,
}
impl SimTy for Rose {
    fn name() -> String {
        "Rose".into()
    }
    fn sim_type(env: &mut SEnv) -> SType {
        named(env, "Rose", |env| {
            let l = |s: &str| SLabel::Named(s.to_string());
            SType::record(vec![(l("v"), u8::sim_type(env)), (l("kids"), SType::vec(Rose::sim_type(env)))])
        })
    }
    fn gen(rng: &mut Rng, s: usize) -> Self {
        let n = if s == 0 { 0 } else { rng.below(4) as usize };
        Rose { v: u8::gen(rng, 0), kids: (0..n).map(|_| Rose::gen(rng, sub(s))).collect() }
    }
    fn av(&self, c: bool) -> AV {
        AV::record(vec![(own_hash("v"), self.v.av(c)), (own_hash("kids"), self.kids.av(c))])
    }
}

#[derive(CandidType, Deserialize, Clone, Debug)]
pub enum Expr {
    Lit(Int),
    Add(Box<Expr>, Box<Expr>),
    Neg(Box<Expr>),
    Var { name: String },
}
impl SimTy for Expr {
    fn name() -> String {
        "Expr".into()
    }
    fn sim_type(env: &mut SEnv) -> SType {
        named(env, "Expr", |env| {
            let l = |s: &str| SLabel::Named(s.to_string());
            SType::variant(vec![
                (l("Lit"), Int::sim_type(env)),
                (l("Add"), SType::record(vec![(SLabel::Id(0), Expr::sim_type(env)), (SLabel::Id(1), Expr::sim_type(env))])),
                (l("Neg"), Expr::sim_type(env)),
                (l("Var"), SType::record(vec![(l("name"), String::sim_type(env))])),
            ])
        })
    }
    fn gen(rng: &mut Rng, s: usize) -> Self {
        if s == 0 {
            return if rng.chance(1, 2) { Expr::Lit(Int::gen(rng, 0)) } else { Expr::Var { name: String::gen(rng, 0) } };
        }
        match rng.below(4) {
            0 => Expr::Lit(Int::gen(rng, 0)),
            1 => Expr::Add(Box::new(Expr::gen(rng, sub(s))), Box::new(Expr::gen(rng, sub(s)))),
            2 => Expr::Neg(Box::new(Expr::gen(rng, s - 1))),
            _ => Expr::Var { name: String::gen(rng, 0) },
        }
    }
    fn av(&self, c: bool) -> AV {
        match self {
            Expr::Lit(i) => AV::Variant(own_hash("Lit"), Box::new(i.av(c))),
            Expr::Add(a, b) => AV::Variant(own_hash("Add"), Box::new(AV::Record(vec![(0, a.av(c)), (1, b.av(c))]))),
            Expr::Neg(a) => AV::Variant(own_hash("Neg"), Box::new(a.av(c))),
            Expr::Var { name } => AV::Variant(own_hash("Var"), Box::new(AV::record(vec![(own_hash("name"), name.av(c))]))),
        }
    }
}

// ---------------------------------------------------------------- references

define_function!(pub FuncRef : (u8, String) -> (Nat) query);
define_service!(pub ServRef : { "get": candid::func!(() -> (Nat) query); "put": candid::func!((Nat) -> ()) });

impl SimTy for FuncRef {
    fn name() -> String {
        "FuncRef".into()
    }
    fn sim_type(_: &mut SEnv) -> SType {
        SType::Func { args: vec![SType::Prim(Prim::Nat8), SType::Prim(Prim::Text)], rets: vec![SType::Prim(Prim::Nat)], mode: Mode::Query }
    }
    fn gen(rng: &mut Rng, _: usize) -> Self {
        FuncRef(Func { principal: Principal::from_slice(&gen_principal(rng)), method: String::gen(rng, 0) })
    }
    fn av(&self, _: bool) -> AV {
        AV::Func(self.0.principal.as_slice().to_vec(), self.0.method.clone())
    }
}
impl SimTy for ServRef {
    fn name() -> String {
        "ServRef".into()
    }
    fn sim_type(_: &mut SEnv) -> SType {
        SType::service(vec![
            ("get".into(), SType::Func { args: vec![], rets: vec![SType::Prim(Prim::Nat)], mode: Mode::Query }),
            ("put".into(), SType::Func { args: vec![SType::Prim(Prim::Nat)], rets: vec![], mode: Mode::Update }),
        ])
    }
    fn gen(rng: &mut Rng, _: usize) -> Self {
        ServRef(Service { principal: Principal::from_slice(&gen_principal(rng)) })
    }
    fn av(&self, _: bool) -> AV {
        AV::Service(self.0.principal.as_slice().to_vec())
    }
}

// ---------------------------------------------------------------- serde(with) wrappers

#[derive(CandidType, Deserialize, Clone, Debug)]
pub struct RcS {
    #[serde(with = "candid::rc")]
    pub s: Rc<String>,
    #[serde(with = "candid::rc")]
    pub n: Rc<Vec<Nat>>,
}
impl SimTy for RcS {
    fn name() -> String {
        "RcS".into()
    }
    fn sim_type(env: &mut SEnv) -> SType {
        let l = |s: &str| SLabel::Named(s.to_string());
        SType::record(vec![(l("s"), String::sim_type(env)), (l("n"), Vec::<Nat>::sim_type(env))])
    }
    fn gen(rng: &mut Rng, s: usize) -> Self {
        RcS { s: Rc::new(String::gen(rng, s)), n: Rc::new(Vec::<Nat>::gen(rng, s)) }
    }
    fn av(&self, c: bool) -> AV {
        AV::record(vec![(own_hash("s"), self.s.av(c)), (own_hash("n"), self.n.av(c))])
    }
}
#[derive(CandidType, Deserialize, Clone, Debug)]
pub struct ArcS(#[serde(with = "candid::arc")] pub Arc<Int>);
impl SimTy for ArcS {
    fn name() -> String {
        "ArcS".into()
    }
    fn sim_type(env: &mut SEnv) -> SType {
        Int::sim_type(env)
    }
    fn gen(rng: &mut Rng, s: usize) -> Self {
        ArcS(Arc::new(Int::gen(rng, s)))
    }
    fn av(&self, c: bool) -> AV {
        self.0.av(c)
    }
}
/// `#[serde(with = "serde_bytes")]` field: blob
#[derive(CandidType, Deserialize, Clone, Debug)]
pub struct Bytes1 {
    #[serde(with = "serde_bytes")]
    pub data: Vec<u8>,
    pub n: u32,
}
impl SimTy for Bytes1 {
    fn name() -> String {
        "Bytes1".into()
    }
    fn sim_type(env: &mut SEnv) -> SType {
        let l = |s: &str| SLabel::Named(s.to_string());
        SType::record(vec![(l("data"), SType::vec(SType::Prim(Prim::Nat8))), (l("n"), u32::sim_type(env))])
    }
    fn gen(rng: &mut Rng, s: usize) -> Self {
        let n = rng.below(s as u64 * 3 + 2) as usize;
        Bytes1 { data: rng.bytes(n), n: u32::gen(rng, 0) }
    }
    fn av(&self, c: bool) -> AV {
        AV::record(vec![(own_hash("data"), self.data.av(c)), (own_hash("n"), self.n.av(c))])
    }
}

/// bounded vector (values always generated within the bounds)
pub type BV = candid::types::bounded_vec::BoundedVec<8, { candid::types::bounded_vec::UNBOUNDED }, { candid::types::bounded_vec::UNBOUNDED }, u64>;
#[derive(CandidType, Deserialize, Clone, Debug)]
pub struct Bounded {
    pub v: BV,
}
impl SimTy for Bounded {
    fn name() -> String {
        "Bounded".into()
    }
    fn sim_type(_: &mut SEnv) -> SType {
        SType::record(vec![(SLabel::Named("v".into()), SType::vec(SType::Prim(Prim::Nat64)))])
    }
    fn gen(rng: &mut Rng, _: usize) -> Self {
        let n = rng.below(9) as usize;
        Bounded { v: BV::new((0..n).map(|_| rng.next_u64()).collect()) }
    }
    fn av(&self, c: bool) -> AV {
        AV::record(vec![(own_hash("v"), self.v.get().av(c))])
    }
}

// ---------------------------------------------------------------- upgrade families (wire-sim, C04)

sim_struct!(RecV1 { a: Nat, b: String });
sim_struct!(RecV2 { a: Int, b: String, c: Option<u8> });
sim_struct!(RecV3 { a: Int, c: Option<Vec<u8>>, d: Option<RecV1> });
sim_struct!(RecV4 { a: candid::Reserved, b: Option<String>, e: Vec<Option<Int>> });

#[derive(CandidType, Deserialize, Clone, Debug)]
pub enum VarV1 {
    A,
    B(Nat),
}
#[derive(CandidType, Deserialize, Clone, Debug)]
pub enum VarV2 {
    A,
    B(Int),
    C(String),
}
impl SimTy for VarV1 {
    fn name() -> String {
        "VarV1".into()
    }
    fn sim_type(env: &mut SEnv) -> SType {
        let l = |s: &str| SLabel::Named(s.to_string());
        SType::variant(vec![(l("A"), SType::Prim(Prim::Null)), (l("B"), Nat::sim_type(env))])
    }
    fn gen(rng: &mut Rng, s: usize) -> Self {
        if rng.chance(1, 2) {
            VarV1::A
        } else {
            VarV1::B(Nat::gen(rng, s))
        }
    }
    fn av(&self, c: bool) -> AV {
        match self {
            VarV1::A => AV::Variant(own_hash("A"), Box::new(AV::Null)),
            VarV1::B(n) => AV::Variant(own_hash("B"), Box::new(n.av(c))),
        }
    }
}
impl SimTy for VarV2 {
    fn name() -> String {
        "VarV2".into()
    }
    fn sim_type(env: &mut SEnv) -> SType {
        let l = |s: &str| SLabel::Named(s.to_string());
        SType::variant(vec![(l("A"), SType::Prim(Prim::Null)), (l("B"), Int::sim_type(env)), (l("C"), String::sim_type(env))])
    }
    fn gen(rng: &mut Rng, s: usize) -> Self {
        match rng.below(3) {
            0 => VarV2::A,
            1 => VarV2::B(Int::gen(rng, s)),
            _ => VarV2::C(String::gen(rng, s)),
        }
    }
    fn av(&self, c: bool) -> AV {
        match self {
            VarV2::A => AV::Variant(own_hash("A"), Box::new(AV::Null)),
            VarV2::B(n) => AV::Variant(own_hash("B"), Box::new(n.av(c))),
            VarV2::C(n) => AV::Variant(own_hash("C"), Box::new(n.av(c))),
        }
    }
}
define_function!(pub FuncRefV2 : (u8, String, Option<Nat>) -> (Nat, Int) query);
define_service!(pub ServRefV2 : { "get": candid::func!(() -> (Nat) query); "put": candid::func!((Nat) -> ()); "extra": candid::func!(() -> ()) });
impl SimTy for FuncRefV2 {
    fn name() -> String {
        "FuncRefV2".into()
    }
    fn sim_type(_: &mut SEnv) -> SType {
        SType::Func { args: vec![SType::Prim(Prim::Nat8), SType::Prim(Prim::Text), SType::opt(SType::Prim(Prim::Nat))], rets: vec![SType::Prim(Prim::Nat), SType::Prim(Prim::Int)], mode: Mode::Query }
    }
    fn gen(rng: &mut Rng, _: usize) -> Self {
        FuncRefV2(Func { principal: Principal::from_slice(&gen_principal(rng)), method: String::gen(rng, 0) })
    }
    fn av(&self, _: bool) -> AV {
        AV::Func(self.0.principal.as_slice().to_vec(), self.0.method.clone())
    }
}
impl SimTy for ServRefV2 {
    fn name() -> String {
        "ServRefV2".into()
    }
    fn sim_type(_: &mut SEnv) -> SType {
        SType::service(vec![
            ("get".into(), SType::Func { args: vec![], rets: vec![SType::Prim(Prim::Nat)], mode: Mode::Query }),
            ("put".into(), SType::Func { args: vec![SType::Prim(Prim::Nat)], rets: vec![], mode: Mode::Update }),
            ("extra".into(), SType::Func { args: vec![], rets: vec![], mode: Mode::Update }),
        ])
    }
    fn gen(rng: &mut Rng, _: usize) -> Self {
        ServRefV2(Service { principal: Principal::from_slice(&gen_principal(rng)) })
    }
    fn av(&self, _: bool) -> AV {
        AV::Service(self.0.principal.as_slice().to_vec())
    }
}

// ---------------------------------------------------------------- large type tables (C03), back-tracking shapes (C07)

// more than 64 type-table entries in one message
sim_struct!(Wide { w00: Option<u8>, w01: Vec<u16>, w02: Option<u32>, w03: Vec<u64>, w04: Option<i8>, w05: Vec<i16>, w06: Option<i32>, w07: Vec<i64>, w08: Option<f32>, w09: Vec<f64>, w10: Option<bool>, w11: Vec<String>, w12: Option<Nat>, w13: Vec<Int>, w14: Option<Principal>, w15: Vec<()>, w16: Option<Vec<u8>>, w17: Vec<Option<u16>>, w18: Option<Vec<u32>>, w19: Vec<Option<u64>>, w20: Option<Vec<i8>>, w21: Vec<Option<i16>>, w22: Option<Vec<i32>>, w23: Vec<Option<i64>>, w24: Option<Vec<f32>>, w25: Vec<Option<f64>>, w26: Option<Vec<bool>>, w27: Vec<Option<String>>, w28: Option<Vec<Nat>>, w29: Vec<Option<Int>>, w30: Option<(u8, u16)>, w31: Vec<(u32, u64)>, w32: Option<(i8, i16)>, w33: Vec<(i32, i64)>, w34: Option<(Nat, Int)>, w35: Vec<(String, bool)>, w36: Option<S1>, w37: Vec<E2>, w38: Option<Option<u8>>, w39: Vec<Vec<u16>> });

// an option whose content fails to coerce, followed by data that is really decoded
sim_struct!(BtA { a: Option<String>, b: Vec<u64>, z: Nat });
sim_struct!(BtB { a: Option<u32>, b: Vec<u64>, z: Nat });
sim_struct!(BtC { a: Option<Vec<Nat>>, b: Vec<String>, z: Int });
sim_struct!(BtD { a: Option<BTreeMapSN>, b: Vec<String>, z: Int });
pub type BTreeMapSN = std::collections::BTreeMap<String, Nat>;

// a cheap wire value under opt against a wide expected record whose typed attempt is expensive
sim_struct!(SmallCfg { schema_version: String });
sim_struct!(WideCfg { configuration_option_number_00: Option<u64>, configuration_option_number_01: Option<u64>, configuration_option_number_02: Option<u64>, configuration_option_number_03: Option<u64>, configuration_option_number_04: Option<u64>, configuration_option_number_05: Option<u64>, configuration_option_number_06: Option<u64>, configuration_option_number_07: Option<u64>, configuration_option_number_08: Option<u64>, configuration_option_number_09: Option<u64>, configuration_option_number_10: Option<u64>, configuration_option_number_11: Option<u64>, configuration_option_number_12: Option<u64>, configuration_option_number_13: Option<u64>, configuration_option_number_14: Option<u64>, configuration_option_number_15: Option<u64>, configuration_option_number_16: Option<u64>, configuration_option_number_17: Option<u64>, configuration_option_number_18: Option<u64>, configuration_option_number_19: Option<u64>, configuration_option_number_20: Option<u64>, configuration_option_number_21: Option<u64>, configuration_option_number_22: Option<u64>, configuration_option_number_23: Option<u64>, configuration_option_number_24: Option<u64>, configuration_option_number_25: Option<u64>, configuration_option_number_26: Option<u64>, configuration_option_number_27: Option<u64>, configuration_option_number_28: Option<u64>, configuration_option_number_29: Option<u64>, configuration_option_number_30: Option<u64>, configuration_option_number_31: Option<u64>, configuration_option_number_32: Option<u64>, configuration_option_number_33: Option<u64>, configuration_option_number_34: Option<u64>, configuration_option_number_35: Option<u64>, configuration_option_number_36: Option<u64>, configuration_option_number_37: Option<u64>, configuration_option_number_38: Option<u64>, configuration_option_number_39: Option<u64>, configuration_option_number_40: Option<u64>, configuration_option_number_41: Option<u64>, configuration_option_number_42: Option<u64>, configuration_option_number_43: Option<u64>, configuration_option_number_44: Option<u64>, configuration_option_number_45: Option<u64>, configuration_option_number_46: Option<u64>, configuration_option_number_47: Option<u64>, configuration_option_number_48: Option<u64>, configuration_option_number_49: Option<u64>, configuration_option_number_50: Option<u64>, configuration_option_number_51: Option<u64>, configuration_option_number_52: Option<u64>, configuration_option_number_53: Option<u64>, configuration_option_number_54: Option<u64>, configuration_option_number_55: Option<u64>, configuration_option_number_56: Option<u64>, configuration_option_number_57: Option<u64>, configuration_option_number_58: Option<u64>, configuration_option_number_59: Option<u64>, configuration_option_number_60: Option<u64>, configuration_option_number_61: Option<u64>, configuration_option_number_62: Option<u64>, configuration_option_number_63: Option<u64>, schema_version: u32 });

// ---------------------------------------------------------------- round-2 strengthening

// a reserved value decoded before a variant in the same argument
sim_struct!(RsvE { a: candid::Reserved, m: Vec<u8>, z: E1 });
sim_struct!(RsvR { a: candid::Reserved, z: Result<Nat, String> });

// trees with an asymmetric subtype relation between them (NatTree <: IntTree, not the reverse)
#[derive(CandidType, Deserialize, Clone, Debug)]
pub struct NatTree {
    pub v: Nat,
    pub kids: Vec<NatTree>,
}
#[derive(CandidType, Deserialize, Clone, Debug)]
pub struct IntTree {
    pub v: Int,
    pub kids: Vec<IntTree>,
}
impl SimTy for NatTree {
    fn name() -> String {
        "NatTree".into()
    }
    fn sim_type(env: &mut SEnv) -> SType {
        named(env, "NatTree", |env| {
            let l = |s: &str| SLabel::Named(s.to_string());
            SType::record(vec![(l("v"), Nat::sim_type(env)), (l("kids"), SType::vec(NatTree::sim_type(env)))])
        })
    }
    fn gen(rng: &mut Rng, s: usize) -> Self {
        let n = if s == 0 { 0 } else { rng.below(3) as usize };
        NatTree { v: Nat::gen(rng, 0), kids: (0..n).map(|_| NatTree::gen(rng, sub(s))).collect() }
    }
    fn av(&self, c: bool) -> AV {
        AV::record(vec![(own_hash("v"), self.v.av(c)), (own_hash("kids"), self.kids.av(c))])
    }
}
impl SimTy for IntTree {
    fn name() -> String {
        "IntTree".into()
    }
    fn sim_type(env: &mut SEnv) -> SType {
        named(env, "IntTree", |env| {
            let l = |s: &str| SLabel::Named(s.to_string());
            SType::record(vec![(l("v"), Int::sim_type(env)), (l("kids"), SType::vec(IntTree::sim_type(env)))])
        })
    }
    fn gen(rng: &mut Rng, s: usize) -> Self {
        let n = if s == 0 { 0 } else { rng.below(3) as usize };
        IntTree { v: Int::gen(rng, 0), kids: (0..n).map(|_| IntTree::gen(rng, sub(s))).collect() }
    }
    fn av(&self, c: bool) -> AV {
        AV::record(vec![(own_hash("v"), self.v.av(c)), (own_hash("kids"), self.kids.av(c))])
    }
}

// a list upgraded by an optional field whose type is the (recursive, hence knotted) list type
// itself and whose label sorts before the fields present on the wire
#[derive(CandidType, Deserialize, Clone, Debug)]
pub struct OldList(pub Option<Box<OldNode>>);
#[derive(CandidType, Deserialize, Clone, Debug)]
pub struct OldNode {
    pub v: Nat,
    pub next: OldList,
}
#[derive(CandidType, Deserialize, Clone, Debug)]
pub struct NewList(pub Option<Box<NewNode>>);
#[allow(non_snake_case)]
#[derive(CandidType, Deserialize, Clone, Debug)]
pub struct NewNode {
    pub A: NewList,
    pub v: Nat,
    pub next: NewList,
}
impl SimTy for OldList {
    fn name() -> String {
        "OldList".into()
    }
    fn sim_type(env: &mut SEnv) -> SType {
        named(env, "OldList", |env| {
            let l = |s: &str| SLabel::Named(s.to_string());
            SType::opt(SType::record(vec![(l("v"), Nat::sim_type(env)), (l("next"), OldList::sim_type(env))]))
        })
    }
    fn gen(rng: &mut Rng, s: usize) -> Self {
        let mut cur = OldList(None);
        for _ in 0..rng.range(0, s.min(8) as u64) {
            cur = OldList(Some(Box::new(OldNode { v: Nat::gen(rng, 0), next: cur })));
        }
        cur
    }
    fn av(&self, c: bool) -> AV {
        match &self.0 {
            None => AV::Opt(None),
            Some(n) => AV::some(AV::record(vec![(own_hash("v"), n.v.av(c)), (own_hash("next"), n.next.av(c))])),
        }
    }
}
impl SimTy for NewList {
    fn name() -> String {
        "NewList".into()
    }
    fn sim_type(env: &mut SEnv) -> SType {
        named(env, "NewList", |env| {
            let l = |s: &str| SLabel::Named(s.to_string());
            SType::opt(SType::record(vec![(l("A"), NewList::sim_type(env)), (l("v"), Nat::sim_type(env)), (l("next"), NewList::sim_type(env))]))
        })
    }
    fn gen(rng: &mut Rng, s: usize) -> Self {
        let mut cur = NewList(None);
        for _ in 0..rng.range(0, s.min(6) as u64) {
            let side = if rng.chance(1, 4) { NewList(Some(Box::new(NewNode { A: NewList(None), v: Nat::gen(rng, 0), next: NewList(None) }))) } else { NewList(None) };
            cur = NewList(Some(Box::new(NewNode { A: side, v: Nat::gen(rng, 0), next: cur })));
        }
        cur
    }
    fn av(&self, c: bool) -> AV {
        match &self.0 {
            None => AV::Opt(None),
            Some(n) => AV::some(AV::record(vec![(own_hash("A"), n.A.av(c)), (own_hash("v"), n.v.av(c)), (own_hash("next"), n.next.av(c))])),
        }
    }
}

// service reference with method names outside ASCII
define_service!(pub ServRefU : { "größe": candid::func!(() -> (Nat) query); "名前": candid::func!((String) -> ()); "🐂": candid::func!(() -> ()) });
impl SimTy for ServRefU {
    fn name() -> String {
        "ServRefU".into()
    }
    fn sim_type(_: &mut SEnv) -> SType {
        SType::service(vec![
            ("größe".into(), SType::Func { args: vec![], rets: vec![SType::Prim(Prim::Nat)], mode: Mode::Query }),
            ("名前".into(), SType::Func { args: vec![SType::Prim(Prim::Text)], rets: vec![], mode: Mode::Update }),
            ("🐂".into(), SType::Func { args: vec![], rets: vec![], mode: Mode::Update }),
        ])
    }
    fn gen(rng: &mut Rng, _: usize) -> Self {
        ServRefU(Service { principal: Principal::from_slice(&gen_principal(rng)) })
    }
    fn av(&self, _: bool) -> AV {
        AV::Service(self.0.principal.as_slice().to_vec())
    }
}

// ---------------------------------------------------------------- round-3 strengthening

/// Two different Rust types whose `std::any::type_name` is identical (local items of two
/// blocks of one function): the thread-local type memo must still tell them apart.
pub fn same_named_types() -> Vec<crate::corpus::DynType> {
    let a = {
        #[derive(CandidType, Deserialize, Clone, Debug)]
        struct Dup {
            x: u8,
        }
        impl SimTy for Dup {
            fn name() -> String {
                "DupA".into()
            }
            fn sim_type(env: &mut SEnv) -> SType {
                SType::record(vec![(SLabel::Named("x".into()), u8::sim_type(env))])
            }
            fn gen(rng: &mut Rng, s: usize) -> Self {
                Dup { x: u8::gen(rng, s) }
            }
            fn av(&self, c: bool) -> AV {
                AV::record(vec![(own_hash("x"), self.x.av(c))])
            }
        }
        crate::corpus::dyn_of::<Dup>()
    };
    let b = {
        #[derive(CandidType, Deserialize, Clone, Debug)]
        struct Dup {
            y: String,
            z: Nat,
        }
        impl SimTy for Dup {
            fn name() -> String {
                "DupB".into()
            }
            fn sim_type(env: &mut SEnv) -> SType {
                SType::record(vec![(SLabel::Named("y".into()), String::sim_type(env)), (SLabel::Named("z".into()), Nat::sim_type(env))])
            }
            fn gen(rng: &mut Rng, s: usize) -> Self {
                Dup { y: String::gen(rng, s), z: Nat::gen(rng, s) }
            }
            fn av(&self, c: bool) -> AV {
                AV::record(vec![(own_hash("y"), self.y.av(c)), (own_hash("z"), self.z.av(c))])
            }
        }
        crate::corpus::dyn_of::<Dup>()
    };
    vec![a, b]
}

/// big numbers that stay inside every 128-bit host type (senders for i128/u128 receivers)
#[derive(CandidType, Deserialize, Clone, Debug)]
pub struct SmallNat(pub Nat);
#[derive(CandidType, Deserialize, Clone, Debug)]
pub struct SmallInt(pub Int);
impl SimTy for SmallNat {
    fn name() -> String {
        "SmallNat".into()
    }
    fn sim_type(_: &mut SEnv) -> SType {
        SType::Prim(Prim::Nat)
    }
    fn gen(rng: &mut Rng, _: usize) -> Self {
        SmallNat(Nat::parse(crate::models::gen::gen_nat(rng, 120).to_decimal().as_bytes()).unwrap())
    }
    fn av(&self, c: bool) -> AV {
        self.0.av(c)
    }
}
impl SimTy for SmallInt {
    fn name() -> String {
        "SmallInt".into()
    }
    fn sim_type(_: &mut SEnv) -> SType {
        SType::Prim(Prim::Int)
    }
    fn gen(rng: &mut Rng, _: usize) -> Self {
        let m = crate::models::gen::gen_nat(rng, 120).to_decimal();
        SmallInt(Int::parse(format!("{}{m}", if rng.chance(1, 2) && m != "0" { "-" } else { "" }).as_bytes()).unwrap())
    }
    fn av(&self, c: bool) -> AV {
        self.0.av(c)
    }
}
