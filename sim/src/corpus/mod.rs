//! The native corpus: concrete Rust types with a Candid mapping, each with a
//! harness-side description (`sim_type`, `av`) that does NOT go through
//! `CandidType::_ty()` or `idl_serialize`, a seeded generator, and a type-erased
//! table (`DynType`) so that schedulers can name types by string.

use crate::kernel::rng::Rng;
use crate::models::bigint::{BigI, BigU};
use crate::models::gen::{gen_nat, gen_principal, gen_text};
use crate::models::stype::*;
use candid::de::IDLDeserialize;
use candid::ser::IDLBuilder;
use candid::types::internal::TypeContainer;
use candid::types::Type;
use candid::{CandidType, Decode, Deserialize, Encode, Int, Nat, Principal, Reserved};
use std::any::Any;
use std::collections::{BTreeMap, BTreeSet, BinaryHeap, LinkedList, VecDeque};
/// std's hash containers with a fixed-key hasher: with the default `RandomState` the iteration
/// order — and with it the bytes of an encoded message — differs from process to process, which
/// breaks replay (found by the full determinism self-test: 4 of ~25 000 C06 runs).
pub type DetState = std::hash::BuildHasherDefault<std::collections::hash_map::DefaultHasher>;
pub type HashMap<K, V> = std::collections::HashMap<K, V, DetState>;
pub type HashSet<T> = std::collections::HashSet<T, DetState>;

pub mod derived;

pub trait SimTy: CandidType + for<'de> Deserialize<'de> + 'static {
    fn name() -> String;
    /// The Candid type the spec assigns to this Rust type; recursive types
    /// register a definition in `env` and return its name.
    fn sim_type(env: &mut SEnv) -> SType;
    fn gen(rng: &mut Rng, size: usize) -> Self;
    /// Abstract value. `canon`: unordered containers sorted (for comparing
    /// decoded with original); otherwise iteration order (= encoding order).
    fn av(&self, canon: bool) -> AV;
}

pub struct DynType {
    pub name: String,
    pub sim_type: fn(&mut SEnv) -> SType,
    pub ty: fn() -> Type,
    pub gen: fn(&mut Rng, usize) -> Box<dyn Any>,
    pub arg: fn(&mut IDLBuilder, &dyn Any) -> Result<(), String>,
    pub get: fn(&mut IDLDeserialize<'static>) -> Result<Box<dyn Any>, String>,
    pub encode_one: fn(&dyn Any) -> Result<Vec<u8>, String>,
    pub encode_args1: fn(&dyn Any) -> Result<Vec<u8>, String>,
    pub decode_one: fn(&[u8]) -> Result<Box<dyn Any>, String>,
    pub decode_macro: fn(&[u8]) -> Result<Box<dyn Any>, String>,
    pub av: fn(&dyn Any, bool) -> AV,
    pub to_idl: fn(&dyn Any) -> Result<candid::IDLValue, String>,
    pub container_add: fn(&mut TypeContainer) -> Type,
    /// decode a message whose first argument is a T under a decoder configuration;
    /// returns the value and the cost reported by the decoder
    pub decode_cfg: fn(&[u8], &candid::DecoderConfig) -> Result<(Box<dyn Any>, Option<usize>, Option<usize>), String>,
    /// 0 = not in the thread's type memo, 1 = memoised without knots, 2 = memoised with a knot inside
    pub memo_state: fn() -> u8,
    /// subtype(T::ty(), T::ty()) and equal(..) through the memo (exercises Knot resolution)
    pub self_subtype: fn() -> Result<(), String>,
}

fn has_knot(t: &Type) -> bool {
    use candid::types::TypeInner::*;
    match t.as_ref() {
        Knot(_) => true,
        Opt(t) | Vec(t) => has_knot(t),
        Record(fs) | Variant(fs) => fs.iter().any(|f| has_knot(&f.ty)),
        Func(f) => f.args.iter().chain(f.rets.iter()).any(has_knot),
        Service(ms) => ms.iter().any(|(_, t)| has_knot(t)),
        Class(a, t) => a.iter().any(has_knot) || has_knot(t),
        _ => false,
    }
}

/// The whole context chain of an error, innermost cause last, without backtrace.
pub fn err_chain(e: candid::Error) -> String {
    let s = match &e {
        candid::Error::Custom(a) => format!("{a:#}"),
        other => other.to_string(),
    };
    // keep it bounded: dumps of the decoder state can be long
    if s.len() > 1200 {
        let cut = s.char_indices().map(|(i, _)| i).take_while(|i| *i <= 500).last().unwrap_or(0);
        let tail_start = s.char_indices().map(|(i, _)| i).find(|i| *i >= s.len() - 600).unwrap_or(s.len());
        format!("{} … {}", &s[..cut], &s[tail_start..])
    } else {
        s
    }
}

fn down<T: 'static>(a: &dyn Any) -> &T {
    a.downcast_ref::<T>().expect("corpus value of the wrong type")
}

pub fn dyn_of<T: SimTy>() -> DynType {
    DynType {
        name: T::name(),
        sim_type: T::sim_type,
        ty: T::ty,
        gen: |r, s| Box::new(T::gen(r, s)),
        arg: |b, v| b.arg(down::<T>(v)).map(|_| ()).map_err(err_chain),
        get: |d| d.get_value::<T>().map(|v| Box::new(v) as Box<dyn Any>).map_err(err_chain),
        encode_one: |v| candid::encode_one(down::<T>(v)).map_err(err_chain),
        encode_args1: |v| Encode!(down::<T>(v)).map_err(err_chain),
        decode_one: |b| candid::decode_one::<T>(b).map(|v| Box::new(v) as Box<dyn Any>).map_err(err_chain),
        decode_macro: |b| Decode!(b, T).map(|v| Box::new(v) as Box<dyn Any>).map_err(err_chain),
        av: |v, c| down::<T>(v).av(c),
        to_idl: |v| candid::IDLValue::try_from_candid_type(down::<T>(v)).map_err(err_chain),
        container_add: |c| c.add::<T>(),
        decode_cfg: |b, cfg| {
            candid::utils::decode_args_with_config_debug::<(T,)>(b, cfg).map(|((v,), cost)| (Box::new(v) as Box<dyn Any>, cost.decoding_quota, cost.skipping_quota)).map_err(err_chain)
        },
        memo_state: || match candid::types::internal::find_type(&T::id()) {
            None => 0,
            Some(t) => {
                if has_knot(&t) {
                    2
                } else {
                    1
                }
            }
        },
        self_subtype: || {
            let t = T::ty();
            let mut g = candid::types::subtype::Gamma::default();
            let env = candid::types::TypeEnv::new();
            candid::types::subtype::subtype_with_config(candid::types::subtype::OptReport::Silence, &mut g, &env, &t, &t).map_err(err_chain)?;
            let mut g = candid::types::subtype::Gamma::default();
            candid::types::subtype::equal(&mut g, &env, &t, &t).map_err(err_chain)
        },
    }
}

fn sort_avs(v: &mut [AV]) {
    v.sort_by_cached_key(|a| format!("{a:?}"));
}

// ---------------------------------------------------------------- primitives

macro_rules! prim_impl {
    ($t:ty, $name:expr, $prim:expr, $gen:expr, $av:expr) => {
        impl SimTy for $t {
            fn name() -> String {
                $name.to_string()
            }
            fn sim_type(_: &mut SEnv) -> SType {
                SType::Prim($prim)
            }
            fn gen(rng: &mut Rng, _size: usize) -> Self {
                let f: fn(&mut Rng) -> $t = $gen;
                f(rng)
            }
            fn av(&self, _: bool) -> AV {
                let f: fn(&$t) -> AV = $av;
                f(self)
            }
        }
    };
}

fn edge_u(rng: &mut Rng, bits: u32) -> u64 {
    let max = if bits == 64 { u64::MAX } else { (1u64 << bits) - 1 };
    match rng.below(6) {
        0 => 0,
        1 => max,
        2 => 1,
        3 => max / 2 + 1,
        _ => rng.next_u64() & max,
    }
}

prim_impl!(bool, "bool", Prim::Bool, |r| r.chance(1, 2), |v| AV::Bool(*v));
prim_impl!(u8, "u8", Prim::Nat8, |r| edge_u(r, 8) as u8, |v| AV::NatN(8, *v as u64));
prim_impl!(u16, "u16", Prim::Nat16, |r| edge_u(r, 16) as u16, |v| AV::NatN(16, *v as u64));
prim_impl!(u32, "u32", Prim::Nat32, |r| edge_u(r, 32) as u32, |v| AV::NatN(32, *v as u64));
prim_impl!(u64, "u64", Prim::Nat64, |r| edge_u(r, 64), |v| AV::NatN(64, *v));
prim_impl!(i8, "i8", Prim::Int8, |r| edge_u(r, 8) as u8 as i8, |v| AV::IntN(8, *v as i64));
prim_impl!(i16, "i16", Prim::Int16, |r| edge_u(r, 16) as u16 as i16, |v| AV::IntN(16, *v as i64));
prim_impl!(i32, "i32", Prim::Int32, |r| edge_u(r, 32) as u32 as i32, |v| AV::IntN(32, *v as i64));
prim_impl!(i64, "i64", Prim::Int64, |r| edge_u(r, 64) as i64, |v| AV::IntN(64, *v));
prim_impl!(
    u128,
    "u128",
    Prim::Nat,
    |r| match r.below(5) {
        0 => 0,
        1 => u128::MAX,
        2 => 1u128 << 127,
        3 => u64::MAX as u128 + 1,
        _ => ((r.next_u64() as u128) << 64) | r.next_u64() as u128,
    },
    |v| AV::Nat(v.to_string())
);
prim_impl!(
    i128,
    "i128",
    Prim::Int,
    |r| match r.below(6) {
        0 => 0,
        1 => i128::MAX,
        2 => i128::MIN,
        3 => -1,
        4 => i64::MIN as i128 - 1,
        _ => (((r.next_u64() as u128) << 64) | r.next_u64() as u128) as i128,
    },
    |v| AV::Int(v.to_string())
);
prim_impl!(
    f32,
    "f32",
    Prim::Float32,
    |r| f32::from_bits(match r.below(6) {
        0 => 0,
        1 => f32::NAN.to_bits(),
        2 => 0x7fc0_0001,
        3 => f32::NEG_INFINITY.to_bits(),
        4 => (-0.0f32).to_bits(),
        _ => r.next_u64() as u32,
    }),
    |v| AV::F32(v.to_bits())
);
prim_impl!(
    f64,
    "f64",
    Prim::Float64,
    |r| f64::from_bits(match r.below(6) {
        0 => 0,
        1 => f64::NAN.to_bits(),
        2 => 0x7ff8_0000_0000_0001,
        3 => f64::INFINITY.to_bits(),
        4 => (-0.0f64).to_bits(),
        _ => r.next_u64(),
    }),
    |v| AV::F64(v.to_bits())
);
prim_impl!(String, "String", Prim::Text, gen_text, |v| AV::Text(v.clone()));
prim_impl!((), "unit", Prim::Null, |_| (), |_| AV::Null);
prim_impl!(Reserved, "Reserved", Prim::Reserved, |_| Reserved, |_| AV::Reserved);
prim_impl!(Nat, "Nat", Prim::Nat, |r| Nat::parse(gen_nat(r, 140).to_decimal().as_bytes()).unwrap(), |v| AV::Nat(v.to_string().replace('_', "")));
prim_impl!(
    Int,
    "Int",
    Prim::Int,
    |r| Int::parse(BigI::new(r.chance(1, 2), gen_nat(r, 140)).to_decimal().as_bytes()).unwrap(),
    |v| AV::Int(v.to_string().replace('_', ""))
);
prim_impl!(Principal, "Principal", Prim::Principal, |r| Principal::from_slice(&gen_principal(r)), |v| AV::Principal(v.as_slice().to_vec()));

/// Numbers that stay inside every 128-bit host type (for pairings in wire-sim).
pub fn small_nat(rng: &mut Rng) -> Nat {
    Nat::parse(gen_nat(rng, 120).to_decimal().as_bytes()).unwrap()
}
pub fn biguint_dec(b: &BigU) -> String {
    b.to_decimal()
}

// ---------------------------------------------------------------- containers

fn sub(size: usize) -> usize {
    size.saturating_sub(1) / 2
}
fn len_for(rng: &mut Rng, size: usize) -> usize {
    match rng.below(6) {
        0 => 0,
        1 => 1,
        _ => rng.range(0, size.clamp(1, 48) as u64) as usize,
    }
}

impl<T: SimTy> SimTy for Option<T> {
    fn name() -> String {
        format!("Option<{}>", T::name())
    }
    fn sim_type(env: &mut SEnv) -> SType {
        SType::opt(T::sim_type(env))
    }
    fn gen(rng: &mut Rng, size: usize) -> Self {
        if size == 0 || rng.chance(1, 3) {
            None
        } else {
            Some(T::gen(rng, size - 1))
        }
    }
    fn av(&self, c: bool) -> AV {
        AV::Opt(self.as_ref().map(|v| Box::new(v.av(c))))
    }
}
impl<T: SimTy> SimTy for Box<T> {
    fn name() -> String {
        format!("Box<{}>", T::name())
    }
    fn sim_type(env: &mut SEnv) -> SType {
        T::sim_type(env)
    }
    fn gen(rng: &mut Rng, size: usize) -> Self {
        Box::new(T::gen(rng, size))
    }
    fn av(&self, c: bool) -> AV {
        (**self).av(c)
    }
}
impl<T: SimTy> SimTy for Vec<T> {
    fn name() -> String {
        format!("Vec<{}>", T::name())
    }
    fn sim_type(env: &mut SEnv) -> SType {
        SType::vec(T::sim_type(env))
    }
    fn gen(rng: &mut Rng, size: usize) -> Self {
        let mut n = if size == 0 { 0 } else { len_for(rng, size) };
        // one-byte and zero-sized elements: sometimes a length at which the LEB128 prefix grows
        if std::mem::size_of::<T>() <= 1 && size > 0 && rng.chance(1, 48) {
            n = *rng.pick(&crate::models::gen::LEN_BOUNDARIES);
        }
        (0..n).map(|_| T::gen(rng, sub(size))).collect()
    }
    fn av(&self, c: bool) -> AV {
        AV::Vec(self.iter().map(|v| v.av(c)).collect())
    }
}
impl<T: SimTy> SimTy for VecDeque<T> {
    fn name() -> String {
        format!("VecDeque<{}>", T::name())
    }
    fn sim_type(env: &mut SEnv) -> SType {
        SType::vec(T::sim_type(env))
    }
    fn gen(rng: &mut Rng, size: usize) -> Self {
        let mut d: VecDeque<T> = Vec::<T>::gen(rng, size).into();
        // make the ring buffer wrap sometimes
        if rng.chance(1, 2) && !d.is_empty() {
            let x = d.pop_back().unwrap();
            d.push_front(x);
        }
        d
    }
    fn av(&self, c: bool) -> AV {
        AV::Vec(self.iter().map(|v| v.av(c)).collect())
    }
}
impl<T: SimTy> SimTy for LinkedList<T> {
    fn name() -> String {
        format!("LinkedList<{}>", T::name())
    }
    fn sim_type(env: &mut SEnv) -> SType {
        SType::vec(T::sim_type(env))
    }
    fn gen(rng: &mut Rng, size: usize) -> Self {
        Vec::<T>::gen(rng, size).into_iter().collect()
    }
    fn av(&self, c: bool) -> AV {
        AV::Vec(self.iter().map(|v| v.av(c)).collect())
    }
}
impl<T: SimTy + Ord> SimTy for BinaryHeap<T> {
    fn name() -> String {
        format!("BinaryHeap<{}>", T::name())
    }
    fn sim_type(env: &mut SEnv) -> SType {
        SType::vec(T::sim_type(env))
    }
    fn gen(rng: &mut Rng, size: usize) -> Self {
        Vec::<T>::gen(rng, size).into_iter().collect()
    }
    fn av(&self, c: bool) -> AV {
        // heap order is an implementation detail: a multiset
        let mut v: Vec<AV> = self.iter().map(|v| v.av(c)).collect();
        if c {
            sort_avs(&mut v);
        }
        AV::Vec(v)
    }
}
impl<T: SimTy + Copy> SimTy for std::cell::Cell<T> {
    fn name() -> String {
        format!("Cell<{}>", T::name())
    }
    fn sim_type(env: &mut SEnv) -> SType {
        T::sim_type(env)
    }
    fn gen(rng: &mut Rng, size: usize) -> Self {
        std::cell::Cell::new(T::gen(rng, size))
    }
    fn av(&self, c: bool) -> AV {
        self.get().av(c)
    }
}
impl<const N: usize> SimTy for serde_bytes::ByteArray<N> {
    fn name() -> String {
        format!("ByteArray<{N}>")
    }
    fn sim_type(_: &mut SEnv) -> SType {
        SType::vec(SType::Prim(Prim::Nat8))
    }
    fn gen(rng: &mut Rng, _: usize) -> Self {
        let b = rng.bytes(N);
        let mut a = [0u8; N];
        a.copy_from_slice(&b);
        serde_bytes::ByteArray::new(a)
    }
    fn av(&self, _: bool) -> AV {
        AV::Vec(self.iter().map(|b| AV::NatN(8, *b as u64)).collect())
    }
}
impl<T: SimTy + Ord> SimTy for BTreeSet<T> {
    fn name() -> String {
        format!("BTreeSet<{}>", T::name())
    }
    fn sim_type(env: &mut SEnv) -> SType {
        SType::vec(T::sim_type(env))
    }
    fn gen(rng: &mut Rng, size: usize) -> Self {
        Vec::<T>::gen(rng, size).into_iter().collect()
    }
    fn av(&self, c: bool) -> AV {
        AV::Vec(self.iter().map(|v| v.av(c)).collect())
    }
}
impl<T: SimTy + Eq + std::hash::Hash> SimTy for HashSet<T> {
    fn name() -> String {
        format!("HashSet<{}>", T::name())
    }
    fn sim_type(env: &mut SEnv) -> SType {
        SType::vec(T::sim_type(env))
    }
    fn gen(rng: &mut Rng, size: usize) -> Self {
        Vec::<T>::gen(rng, size).into_iter().collect()
    }
    fn av(&self, c: bool) -> AV {
        let mut v: Vec<AV> = self.iter().map(|v| v.av(c)).collect();
        if c {
            sort_avs(&mut v);
        }
        AV::Vec(v)
    }
}
fn pair_av(k: AV, v: AV) -> AV {
    AV::Record(vec![(0, k), (1, v)])
}
fn pair_type(k: SType, v: SType) -> SType {
    SType::vec(SType::record(vec![(SLabel::Id(0), k), (SLabel::Id(1), v)]))
}
impl<K: SimTy + Ord, V: SimTy> SimTy for BTreeMap<K, V> {
    fn name() -> String {
        format!("BTreeMap<{},{}>", K::name(), V::name())
    }
    fn sim_type(env: &mut SEnv) -> SType {
        pair_type(K::sim_type(env), V::sim_type(env))
    }
    fn gen(rng: &mut Rng, size: usize) -> Self {
        let n = if size == 0 { 0 } else { len_for(rng, size) };
        (0..n).map(|_| (K::gen(rng, sub(size)), V::gen(rng, sub(size)))).collect()
    }
    fn av(&self, c: bool) -> AV {
        AV::Vec(self.iter().map(|(k, v)| pair_av(k.av(c), v.av(c))).collect())
    }
}
impl<K: SimTy + Eq + std::hash::Hash, V: SimTy> SimTy for HashMap<K, V> {
    fn name() -> String {
        format!("HashMap<{},{}>", K::name(), V::name())
    }
    fn sim_type(env: &mut SEnv) -> SType {
        pair_type(K::sim_type(env), V::sim_type(env))
    }
    fn gen(rng: &mut Rng, size: usize) -> Self {
        let n = if size == 0 { 0 } else { len_for(rng, size) };
        (0..n).map(|_| (K::gen(rng, sub(size)), V::gen(rng, sub(size)))).collect()
    }
    fn av(&self, c: bool) -> AV {
        let mut v: Vec<AV> = self.iter().map(|(k, v)| pair_av(k.av(c), v.av(c))).collect();
        if c {
            sort_avs(&mut v);
        }
        AV::Vec(v)
    }
}
impl<T: SimTy, const N: usize> SimTy for [T; N]
where
    [T; N]: for<'de> Deserialize<'de>,
{
    fn name() -> String {
        format!("[{};{}]", T::name(), N)
    }
    fn sim_type(env: &mut SEnv) -> SType {
        SType::vec(T::sim_type(env))
    }
    fn gen(rng: &mut Rng, size: usize) -> Self {
        std::array::from_fn(|_| T::gen(rng, sub(size)))
    }
    fn av(&self, c: bool) -> AV {
        AV::Vec(self.iter().map(|v| v.av(c)).collect())
    }
}
impl<T: SimTy, E: SimTy> SimTy for Result<T, E> {
    fn name() -> String {
        format!("Result<{},{}>", T::name(), E::name())
    }
    fn sim_type(env: &mut SEnv) -> SType {
        SType::variant(vec![(SLabel::Named("Ok".into()), T::sim_type(env)), (SLabel::Named("Err".into()), E::sim_type(env))])
    }
    fn gen(rng: &mut Rng, size: usize) -> Self {
        if rng.chance(1, 2) {
            Ok(T::gen(rng, sub(size)))
        } else {
            Err(E::gen(rng, sub(size)))
        }
    }
    fn av(&self, c: bool) -> AV {
        match self {
            Ok(v) => AV::Variant(own_hash("Ok"), Box::new(v.av(c))),
            Err(e) => AV::Variant(own_hash("Err"), Box::new(e.av(c))),
        }
    }
}
impl SimTy for serde_bytes::ByteBuf {
    fn name() -> String {
        "ByteBuf".into()
    }
    fn sim_type(_: &mut SEnv) -> SType {
        SType::vec(SType::Prim(Prim::Nat8))
    }
    fn gen(rng: &mut Rng, size: usize) -> Self {
        let n = rng.range(0, (size * 4) as u64 + 1) as usize;
        serde_bytes::ByteBuf::from(rng.bytes(n))
    }
    fn av(&self, _: bool) -> AV {
        AV::Vec(self.iter().map(|b| AV::NatN(8, *b as u64)).collect())
    }
}
impl SimTy for std::time::Duration {
    fn name() -> String {
        "Duration".into()
    }
    fn sim_type(_: &mut SEnv) -> SType {
        SType::record(vec![(SLabel::Named("secs".into()), SType::Prim(Prim::Nat64)), (SLabel::Named("nanos".into()), SType::Prim(Prim::Nat32))])
    }
    fn gen(rng: &mut Rng, _: usize) -> Self {
        std::time::Duration::new(rng.next_u64() >> rng.below(64), rng.below(1_000_000_000) as u32)
    }
    fn av(&self, _: bool) -> AV {
        AV::record(vec![(own_hash("secs"), AV::NatN(64, self.as_secs())), (own_hash("nanos"), AV::NatN(32, self.subsec_nanos() as u64))])
    }
}
impl SimTy for std::path::PathBuf {
    fn name() -> String {
        "PathBuf".into()
    }
    fn sim_type(_: &mut SEnv) -> SType {
        SType::Prim(Prim::Text)
    }
    fn gen(rng: &mut Rng, _: usize) -> Self {
        std::path::PathBuf::from(format!("/tmp/{}", gen_text(rng).replace('\0', "")))
    }
    fn av(&self, _: bool) -> AV {
        AV::Text(self.to_str().unwrap_or("").to_string())
    }
}
impl<T: SimTy> SimTy for std::cmp::Reverse<T> {
    fn name() -> String {
        format!("Reverse<{}>", T::name())
    }
    fn sim_type(env: &mut SEnv) -> SType {
        T::sim_type(env)
    }
    fn gen(rng: &mut Rng, size: usize) -> Self {
        std::cmp::Reverse(T::gen(rng, size))
    }
    fn av(&self, c: bool) -> AV {
        self.0.av(c)
    }
}
impl<T: SimTy> SimTy for std::cell::RefCell<T> {
    fn name() -> String {
        format!("RefCell<{}>", T::name())
    }
    fn sim_type(env: &mut SEnv) -> SType {
        T::sim_type(env)
    }
    fn gen(rng: &mut Rng, size: usize) -> Self {
        std::cell::RefCell::new(T::gen(rng, size))
    }
    fn av(&self, c: bool) -> AV {
        self.borrow().av(c)
    }
}

macro_rules! tuple_impl {
    ($($idx:tt $t:ident),+) => {
        impl<$($t: SimTy),+> SimTy for ($($t,)+) {
            fn name() -> String {
                let parts: Vec<String> = vec![$($t::name()),+];
                format!("({})", parts.join(","))
            }
            fn sim_type(env: &mut SEnv) -> SType {
                SType::record(vec![$((SLabel::Id($idx), $t::sim_type(env))),+])
            }
            fn gen(rng: &mut Rng, size: usize) -> Self {
                ($($t::gen(rng, sub(size)),)+)
            }
            fn av(&self, c: bool) -> AV {
                AV::Record(vec![$(($idx, self.$idx.av(c))),+])
            }
        }
    };
}
tuple_impl!(0 A);
tuple_impl!(0 A, 1 B);
tuple_impl!(0 A, 1 B, 2 C);
tuple_impl!(0 A, 1 B, 2 C, 3 D);
tuple_impl!(0 A, 1 B, 2 C, 3 D, 4 E);

// ---------------------------------------------------------------- the table

macro_rules! reg {
    ($v:ident; $($t:ty),* $(,)?) => { $( $v.push(dyn_of::<$t>()); )* };
}
macro_rules! reg_wrap1 {
    ($v:ident; $w:ident; $($t:ty),* $(,)?) => { $( $v.push(dyn_of::<$w<$t>>()); )* };
}
macro_rules! reg_map {
    ($v:ident; $m:ident; $k:ty; $($t:ty),* $(,)?) => { $( $v.push(dyn_of::<$m<$k, $t>>()); )* };
}

pub fn build() -> Vec<DynType> {
    use derived::*;
    let mut v: Vec<DynType> = Vec::new();
    // element types
    reg!(v; bool, u8, u16, u32, u64, i8, i16, i32, i64, u128, i128, f32, f64, Nat, Int, String, Principal, (), Reserved,
         FuncRef, ServRef, S1, S2, E1, E2, Unit0, Pair, NewT, KeyW, Renamed, G<u8>, G<Nat>, G<S1>, GE<Int>, GE<String>,
         List, MutA, MutB, Rose, Expr, RcS, ArcS, Bytes1, Bounded, std::time::Duration, std::path::PathBuf, serde_bytes::ByteBuf);
    // one level of containers over every element type that allows it
    reg_wrap1!(v; Option; bool, u8, u16, u32, u64, i8, i16, i32, i64, u128, i128, f32, f64, Nat, Int, String, Principal, (), Reserved, FuncRef, ServRef, S1, S2, E1, E2, List, MutA, Rose, Expr);
    reg_wrap1!(v; Vec; bool, u8, u16, u32, u64, i8, i16, i32, i64, u128, i128, f32, f64, Nat, Int, String, Principal, (), Reserved, FuncRef, ServRef, S1, S2, E1, E2, List, MutB, Rose, Expr);
    reg_wrap1!(v; VecDeque; bool, u8, u32, i64, f64, Nat, Int, String, Principal, S1, E1);
    reg_wrap1!(v; BTreeSet; bool, u8, u16, u32, u64, i8, i16, i32, i64, u128, i128, Nat, Int, String, Principal, (), E2);
    reg_wrap1!(v; HashSet; bool, u8, u32, u64, i32, i64, u128, Nat, Int, String, Principal, E2);
    reg_wrap1!(v; Box; u8, Nat, String, S1, E1);
    // maps: key x value
    reg_map!(v; BTreeMap; String; bool, u8, u64, i32, Nat, Int, String, Principal, f64, S1, E1, Vec<u8>, Option<Nat>, u128, i128);
    reg_map!(v; BTreeMap; Nat; Nat, Int, String, u8, S1, Principal, Vec<Nat>);
    reg_map!(v; BTreeMap; Int; Nat, Int, String, u8, E1, Principal, f32);
    reg_map!(v; BTreeMap; Principal; Nat, Int, String, u64, S2);
    reg_map!(v; BTreeMap; u8; Nat, Int, String, u8, bool);
    reg_map!(v; BTreeMap; u64; Nat, Int, String, Vec<Int>);
    reg_map!(v; BTreeMap; i128; Nat, Int, u8);
    reg_map!(v; BTreeMap; u128; Nat, Int, String);
    reg_map!(v; BTreeMap; bool; Int, Nat);
    reg_map!(v; BTreeMap; E2; Nat, Int, String);
    reg_map!(v; BTreeMap; (Int,Nat); Nat, Int, String);
    reg_map!(v; HashMap; String; Nat, Int, u8, String, S1);
    reg_map!(v; HashMap; Nat; Nat, Int, String);
    reg_map!(v; HashMap; Int; Nat, Int, bool);
    reg_map!(v; HashMap; Principal; Int, Nat);
    reg_map!(v; HashMap; u32; Int, Nat, String);
    // tuples and arrays
    reg!(v; (u8,), (Nat, Int), (Int, Nat), (String, u8), (u8, String, Nat), (Nat, Option<Int>), (Vec<u8>, Vec<Nat>), (S1, E1), (f32, f64, bool, ()),
         (Int, Int, Int, Int, Int), (Principal, FuncRef), (Reserved, u8), (Option<u8>, Option<Nat>),
         [u8; 0], [u8; 3], [u16; 2], [Nat; 2], [Int; 3], [String; 2], [bool; 4], [S1; 2], [Option<Nat>; 2], [f64; 2]);
    // two levels deep
    reg!(v; Vec<Option<Nat>>, Vec<Option<u8>>, Vec<Option<Int>>, Vec<Vec<u8>>, Vec<Vec<Nat>>, Vec<Vec<Int>>, Vec<Vec<String>>, Vec<(Nat, Int)>, Vec<(String, Nat)>, Vec<BTreeMap<String, Nat>>,
         Option<Vec<u8>>, Option<Vec<Nat>>, Option<Vec<Int>>, Option<Option<u8>>, Option<Option<Nat>>, Option<Box<S1>>, Option<BTreeMap<String, Int>>, Option<(Nat, Int)>, Option<[u8; 2]>,
         BTreeMap<String, Vec<Nat>>, BTreeMap<String, BTreeMap<String, Int>>, BTreeMap<Nat, BTreeMap<Int, Nat>>, BTreeMap<String, BTreeMap<Nat, Int>>, BTreeMap<Int, BTreeMap<String, Nat>>, BTreeMap<String, Option<Int>>,
         BTreeMap<u8, BTreeMap<String, Nat>>, BTreeMap<String, HashMap<Int, Nat>>, BTreeMap<Vec<u8>, Nat>, BTreeMap<Option<Nat>, Int>, BTreeSet<Vec<Nat>>, BTreeSet<(Int, Nat)>, BTreeSet<Option<Int>>, HashSet<Vec<u8>>, HashSet<(Nat, String)>,
         VecDeque<Vec<Int>>, VecDeque<Option<String>>, Vec<BTreeSet<Int>>, Vec<HashSet<Nat>>, Vec<[u8; 2]>, Vec<Box<E1>>, Result<Nat, String>, Result<(), Int>, Result<S1, E1>, Vec<Result<u8, String>>, Option<Result<Nat, Int>>,
         std::cmp::Reverse<Int>, std::cell::RefCell<Nat>, Vec<std::time::Duration>, BTreeMap<String, serde_bytes::ByteBuf>, Vec<serde_bytes::ByteBuf>, Option<serde_bytes::ByteBuf>,
         G<Vec<Int>>, G<Option<Nat>>, GE<Vec<u8>>, Vec<G<u8>>, BTreeMap<String, G<Nat>>, Vec<List>, BTreeMap<String, Rose>, Option<Box<Expr>>, Vec<MutA>, (List, Rose), BTreeMap<Int, List>, Vec<KeyW>, Vec<Renamed>, Option<Pair>, Vec<NewT>, Vec<Unit0>, Vec<RcS>, Vec<Bounded>);
    // upgrade families for wire-sim
    reg!(v; RecV1, RecV2, RecV3, RecV4, VarV1, VarV2, Option<VarV1>, Option<VarV2>, Vec<RecV1>, Vec<RecV2>, Option<RecV3>, FuncRefV2, ServRefV2, (RecV1, VarV1), (RecV2, Option<VarV2>),
         BTreeMap<String, RecV1>, BTreeMap<String, RecV2>, Vec<Option<VarV1>>, Vec<Option<VarV2>>, (Nat,), (Int,), (Int, Option<String>), (Nat, String, u8), Option<(Int,)>);
    // pointer-sized wrappers around fixed-width numbers (the bulk little-endian vector path must not apply)
    reg!(v; Vec<Box<u64>>, Vec<Box<i64>>, Vec<Box<f64>>, Vec<Box<u32>>, Vec<Box<u8>>, [Box<u64>; 2], VecDeque<Box<i64>>, Vec<std::cmp::Reverse<u64>>, Vec<std::cell::RefCell<u64>>, Vec<Box<bool>>,
         Vec<(u64,)>, Vec<NewT>, Vec<ArcS>);
    // large type tables, back-tracking shapes
    reg!(v; Wide, Vec<Wide>, (Wide, Option<Wide>), BtA, BtB, BtC, BtD, Vec<BtA>, Vec<BtB>, SmallCfg, WideCfg, Option<SmallCfg>, Option<WideCfg>, Vec<Option<SmallCfg>>, Vec<Option<WideCfg>>);
    // round-2 strengthening: reserved before variants, asymmetric trees, knotted optional field, non-ASCII method names
    reg!(v; (Reserved, E1), (Reserved, E2), (Reserved, Result<Nat, String>), Vec<(Reserved, Option<E2>)>, BTreeMap<Reserved, E2>, RsvE, RsvR, Vec<RsvE>, (Reserved, Option<E1>, u8),
         NatTree, IntTree, Vec<NatTree>, Option<IntTree>, OldList, NewList, Vec<OldList>, (OldList, u8), ServRefU, Vec<ServRefU>, Option<ServRefU>);
    // several instantiations / Rust types with one Candid type / less common std containers in one message
    reg!(v; (G<u8>, G<Nat>), (G<Nat>, G<u8>, G<Nat>), Vec<(G<u8>, G<S1>)>, (VarV1, E2, VarV2), (NatTree, IntTree), (List, OldList), (RecV1, S1, RecV1), (Vec<u8>, serde_bytes::ByteBuf, Bytes1),
         LinkedList<Nat>, LinkedList<String>, LinkedList<Option<Int>>, BinaryHeap<u32>, BinaryHeap<Int>, BinaryHeap<String>, std::cell::Cell<u32>, Vec<std::cell::Cell<i64>>,
         serde_bytes::ByteArray<4>, serde_bytes::ByteArray<0>, (serde_bytes::ByteArray<2>, u8), Option<Option<Option<u8>>>, Vec<Option<Option<Nat>>>, Option<()>, Option<Reserved>, Vec<Option<()>>,
         (FuncRef, FuncRefV2, ServRef), Vec<FuncRef>, BTreeMap<String, FuncRef>, (f32, f64, Vec<f32>), BTreeMap<(u8, String), Vec<Int>>, HashMap<(Int, Nat), String>, [Int; 0], [Vec<Nat>; 2]);
    // round-3 strengthening
    reg!(v; SmallNat, SmallInt, Vec<SmallNat>, Vec<SmallInt>, Option<SmallNat>, BTreeMap<String, SmallNat>, (SmallNat, SmallInt), Vec<i128>, Vec<u128>, Option<i128>, BTreeMap<String, i128>, BTreeMap<Nat, Int>, BTreeMap<u16, Nat>, BTreeMap<String, Option<String>>, BTreeMap<String, Option<u8>>, BTreeMap<String, Vec<String>>, Vec<(Int, Int)>);
    v.extend(same_named_types());
    // names must be unique
    let mut seen = BTreeSet::new();
    v.retain(|d| seen.insert(d.name.clone()));
    v
}

static CORPUS: std::sync::OnceLock<Vec<DynType>> = std::sync::OnceLock::new();
/// The corpus table (built once per process; entries are plain function pointers).
pub fn corpus() -> &'static Vec<DynType> {
    CORPUS.get_or_init(build)
}
pub fn find(name: &str) -> Option<&'static DynType> {
    corpus().iter().find(|d| d.name == name)
}
