#![allow(dead_code)]
mod corpus;
mod engines;
mod kernel;
mod models;

use kernel::report::Tier;

#[global_allocator]
static GLOBAL: kernel::alloc::Counting = kernel::alloc::Counting;
use kernel::sup;
use std::collections::BTreeSet;

fn usage() -> i32 {
    eprintln!("usage: simcheck check <id> <quick|thorough> | replay <file> [-v] | selftest-determinism [--quick] [ids..] | worker .. | exec-one <id> <file> | gen <id> <tier> <run>");
    2
}

fn main() {
    // error values of the code under test capture backtraces when these are set: slow and noisy
    std::env::set_var("RUST_BACKTRACE", "0");
    std::env::set_var("RUST_LIB_BACKTRACE", "0");
    kernel::guard::install_silent_hook();
    let args: Vec<String> = std::env::args().skip(1).collect();
    let code = match args.first().map(|s| s.as_str()) {
        Some("check") if args.len() >= 3 => match Tier::parse(&args[2]) {
            Some(t) => sup::check(&args[1], t),
            None => usage(),
        },
        Some("replay") if args.len() >= 2 => sup::replay(&args[1], args.iter().any(|a| a == "-v")),
        Some("exec-one") if args.len() >= 3 => sup::exec_one_cmd(&args[1], &args[2]),
        Some("gen") if args.len() >= 4 => {
            let t = Tier::parse(&args[2]).unwrap_or(Tier::Quick);
            let sc = engines::generate(&args[1], t, sup::verif_seed(), args[3].parse().unwrap_or(0));
            println!("{}", serde_json::to_string_pretty(&sc).unwrap());
            0
        }
        Some("worker") if args.len() >= 9 => {
            let skip: BTreeSet<u64> = args[8].split(',').filter_map(|s| s.parse().ok()).collect();
            sup::worker(sup::WorkerArgs {
                prop: args[1].clone(),
                tier: Tier::parse(&args[2]).unwrap_or(Tier::Quick),
                seed: args[3].parse().unwrap_or(0),
                w: args[4].parse().unwrap_or(0),
                nw: args[5].parse().unwrap_or(1),
                total: args[6].parse().unwrap_or(0),
                dir: args[7].clone().into(),
                skip,
            })
        }
        Some("corpus") => {
            for d in corpus::corpus() {
                println!("{}", d.name);
            }
            0
        }
        Some("selftest-determinism") => {
            let quick = args.iter().any(|a| a == "--quick");
            let mut props: Vec<String> = args[1..].iter().filter(|a| !a.starts_with("--")).cloned().collect();
            if props.is_empty() {
                props = engines::CLAIMED.iter().map(|s| s.to_string()).collect();
            }
            let (seeds, runs) = if quick { (3, 192) } else { (25, 1024) };
            sup::selftest_determinism(&props, seeds, runs)
        }
        _ => usage(),
    };
    std::process::exit(code);
}
