#!/bin/bash
# try_mutation.sh <patch.diff> <prop> [tier]: apply a seeded change to /repo, run the check, undo it.
set -u
PATCH="$(realpath "$1")"; P="$2"; TIER="${3:-quick}"
if [ -n "$(git -C /repo status --porcelain)" ]; then echo "refusing: /repo is not clean"; exit 2; fi
trap 'git -C /repo checkout -q -- . ; git -C /repo clean -fdq' EXIT
git -C /repo apply "$PATCH" || { echo "patch does not apply"; exit 2; }
cd /verif && ./check "$P" "$TIER" > /verif/work/try-$P.out 2>&1
rc=$?
echo "exit=$rc"
grep -E "^violation|^VIOLATION|^KNOWN|^HARNESS|^done" /verif/work/try-$P.out | cut -c1-700 | head -12
exit 0
