#!/bin/bash
# try_mutation.sh <patch.diff> <prop> [tier]: run the check of one property against a seeded change.
#
# Nothing is written to /repo or to /verif's evidence and replays. The change is applied to a scratch copy of
# /repo's working tree under /var/tmp; the check runs from a scratch copy of /verif whose harness
# crate points at that copy and has its own build output; both are removed afterwards. A run that
# is killed half-way leaves /var/tmp/candid-mut.* behind and nothing else.
# (The first version patched /repo in place and undid it in an EXIT trap; a change left behind by
# a killed run ended up committed in /repo, see DESIGN.md §14.)
#
# SCRATCH=<dir> reuses <dir> (and its build output) across calls and does not remove it.
set -u
PATCH="$(realpath "$1")"; P="$2"; TIER="${3:-quick}"
VERIF="$(cd "$(dirname "$0")/.." && pwd)"
if [ -n "${SCRATCH:-}" ]; then S="$SCRATCH"; mkdir -p "$S"; else
  S="$(mktemp -d /var/tmp/candid-mut.XXXXXX)"
  trap 'rm -rf "$S"' EXIT INT TERM HUP
fi
rsync -a --delete --exclude /target --exclude /.git /repo/ "$S/repo/"
rsync -a --delete --exclude /target --exclude /work --exclude /replays --exclude /evidence \
      --exclude /seeded --exclude /.git "$VERIF/" "$S/verif/"
sed -i "s#\"/repo/#\"$S/repo/#" "$S/verif/sim/Cargo.toml"
mkdir -p "$S/verif/evidence" "$VERIF/work"
(cd "$S/repo" && git apply "$PATCH") || { echo "patch does not apply"; exit 2; }
(cd "$S/verif" && ./check "$P" "$TIER") > "$VERIF/work/try-$P.out" 2>&1
rc=$?
echo "exit=$rc"
grep -E "^violation|^VIOLATION|^KNOWN|^HARNESS|^done" "$VERIF/work/try-$P.out" | cut -c1-700 | head -12
exit 0
