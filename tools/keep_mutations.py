#!/usr/bin/env python3
"""Copy confirmed seeded changes from the scratch worktrees into /verif/seeded/<id>/."""
import json, os, shutil, glob, sys
CAUGHT = {  # which invariant of which check reports it (quick tier), and whether the first version of the checks did
 "C01-m1": ("C01 roundtrip-value", False), "C01-m2": ("C01 outcome-independent-of-history", True), "C01-m3": ("C01 roundtrip-decodes / roundtrip-value", True),
 "C03-m1": ("C03 wellformed-index-range, roundtrip-decodes", False), "C03-m2": ("C03 wellformed-method-order", True), "C03-m3": ("C03 roundtrip-decodes under short writes", True),
 "C04-m1": ("C04 accepted-subtype-decodes-untyped (planted definition change, text gate)", False), "C04-m2": ("C04 accepted-subtype-decodes-untyped", True), "C04-m3": ("C04 accepted-subtype-decodes-native/untyped", True),
 "C05-m1": ("C05 answer-independent-of-memo-history", True), "C05-m2": ("C05 answer-equals-spec-relation (CheckAll)", False), "C05-m3": ("C05 equal-decides-structural-equality / upgrade-check-equals-spec-relation", False),
 "C06-m1": ("C06 decode-no-panic", False), "C06-m2": ("C06 decode-no-panic + process-death (SIGABRT)", True), "C06-m3": ("C06 process-death (stack overflow)", False),
 "C07-m1": ("C07 success-monotone-in-quota", False), "C07-m2": ("C07 cost-independent-of-quota", False), "C07-m3": ("C07 cost-within-documented-model", False),
 "C09-m1": ("C09 decode-terminated-is-value (EINTR)", True), "C09-m2": ("C09 decode-128-rejects-out-of-range", True), "C09-m3": ("C09 decode-128-rejects-out-of-range (in-message)", True),
 "C20-m1": ("C20 recursion-within-configured-depth (patch_rebased.diff)", False), "C20-m2": ("C20 generated-value-inhabits-type", True), "C20-m3": ("C20 generator-no-panic", True),
 # second round
 "C01-n1": ("C01 no-panic / outcome-independent-of-history (TypeContainer::add, arg after another builder's env_clear)", True),
 "C01-n2": ("C01 roundtrip-decodes", False), "C03-n1": ("C03 roundtrip-decodes / wellformed-field-order (KeyW)", True), "C03-n2": ("C03 roundtrip-decodes / wellformed-utf8", False),
 "C04-n1": ("C04 decoded-value-has-receiver-type", True), "C04-n2": ("C04 accepted-subtype-decodes-untyped/native", False),
 "C05-n1": ("C05 answer-equals-spec-relation (native knot queries)", False), "C05-n2": ("C05 equal-decides-structural-equality", True),
 "C06-n1": ("C06 decode-no-panic", True), "C06-n2": ("C06 process-death (stack overflow in header parsing)", False),
 "C07-n1": ("C07 quota-bounds-the-work", True), "C07-n2": ("C07 cost-at-least-bytes-read", False),
 "C09-n1": ("C09 decode-value (IntFromNatThen8)", True), "C09-n2": ("C09 encode-minimal (I128)", True),
 "C20-n1": ("C20 recursion-within-configured-depth (family W)", False), "C20-n2": ("C20 recursion-within-configured-depth (size budget)", False),
 # third round (worktrees /tmp/mut3/<A..D>, four changes each)
 "C01-p1": ("C01 roundtrip-decodes / outcome-independent-of-history (same-named local types DupA/DupB)", False), "C01-p2": ("C01 roundtrip-value (i128)", True),
 "C03-p3": ("C03 argument-value (a nat value / number literal handed over at type int)", False), "C03-p4": ("C03 argument-type (composite_query annotation)", True),
 "C04-p1": ("C04 native-result-is-the-sent-value (SmallNat -> i128)", False), "C04-p2": ("C04 accepted-subtype-decodes-untyped / gate differs from spec relation", True),
 "C05-p3": ("C05 answer-equals-spec-relation (CheckAll on service vs principal under a context)", False), "C05-p4": ("C05 answer-equals-spec-relation (query vs composite_query)", True),
 "C06-p1": ("C06 decode-no-panic (primitive vector with length near 2^64/size, no quota)", False), "C06-p2": ("C06 decode-no-panic (nesting past 65535 on a 2 GiB stack)", False),
 "C07-p3": ("C07 cost-at-least-bytes-read", True), "C07-p4": ("C07 cost-within-documented-model (Vec<Nat> read at Vec<Int>)", False),
 "C09-p1": ("C09 decode-128-rejects-out-of-range", True), "C09-p2": ("C09 decode-value (MapU8Int)", True),
 "C20-p3": ("C20 generator-no-panic (division by zero)", True), "C20-p4": ("C20 recursion-within-configured-depth (family VT)", False),
 # fourth round (worktrees /tmp/mut4/<A..D>)
 "C01-q1": ("C01 roundtrip-decodes (BTreeSet<i8>, Wide)", True), "C01-q2": ("C01 roundtrip-decodes (function references with method names of 128+ bytes)", True),
 "C03-q3": ("C03 argument-value / roundtrip-decodes (a length of exactly 16384)", False), "C03-q4": ("C03 roundtrip-decodes (second serialize on one builder)", True),
 "C04-q1": ("C04 accepted-subtype-decodes-native (enumerated pairs: BTreeMap<Int,Int> at Option<BTreeMap<String,Int>>)", True), "C04-q2": ("C04 accepted-subtype-decodes-untyped (vec nat at opt vec nat8)", True),
 "C05-q4": ("C05 equal-decides-structural-equality", True),
 "C06-q1": ("C06 decode-no-panic (error-message window past the end of a >2 KiB input)", True), "C06-q2": ("C06 decode-no-panic (multiplication overflow of the skipping penalty)", True),
 "C07-q3": ("C07 skipped-data-charged-to-skipping-quota", True), "C07-q4": ("C07 skipped-data-charged-to-skipping-quota (blob)", True),
 "C09-q1": ("C09 decode-value (I128FromNatThen8)", True), "C09-q2": ("C09 encode-minimal / encode-completes", True),
 "C20-q3": ("C20 generated-value-inhabits-type (same literal configured for several number types)", False), "C20-q4": ("C20 generator-no-panic", True),
}
ROUNDS = [("/tmp/mut", "m", (1,2,3)), ("/tmp/mut2", "n", (1,2))]
for base, pre, ks in ROUNDS:
  for p in ["C01","C03","C04","C05","C06","C07","C09","C20"]:
    for k in ks:
        src = f"{base}/{p}/out/{pre}{k}"
        if not os.path.isdir(src): continue
        cf = os.path.join(src, "confirm.json")
        if not os.path.exists(cf):
            print("not confirmed yet:", src); continue
        conf = json.load(open(cf))
        ok = conf["applies"] and conf["existing_suite_passes_with_patch"] and conf["demo_fails_with_patch"] and conf["demo_passes_without_patch"]
        if not ok:
            print("NOT kept (confirmation failed):", src, conf); continue
        dst = f"/verif/seeded/{p}-{pre}{k}"
        os.makedirs(dst, exist_ok=True)
        shutil.copy(os.path.join(src, "patch.diff"), dst)
        if os.path.exists(os.path.join(src, "patch_rebased.diff")):
            shutil.copy(os.path.join(src, "patch_rebased.diff"), dst)
        for f in glob.glob(os.path.join(src, "*.rs")):
            shutil.copy(f, dst)
        meta = json.load(open(os.path.join(src, "meta.json")))
        caught, first = CAUGHT[f"{p}-{pre}{k}"]
        meta.update({
            "breaks_property": p,
            "confirmed_in_scratch_worktree": conf,
            "what_was_run": f"tools/confirm_mutation.sh {src} (patch applies; cargo test --workspace with patch: 219 pass; demo fails with patch, passes without); tools/try_mutation.sh seeded/{p}-{pre}{k}/patch.diff {p} quick",
            "caught_by": caught,
            "caught_by_first_version_of_the_checks": first,
        })
        json.dump(meta, open(os.path.join(dst, "meta.json"), "w"), indent=1)
        print("kept", dst)

# third round: property is in meta.json
for g in "ABCD":
    for k in (1,2,3,4):
        src = f"/tmp/mut3/{g}/out/p{k}"
        if not os.path.isdir(src): continue
        meta = json.load(open(os.path.join(src, "meta.json")))
        p = meta["property"]
        cf = os.path.join(src, "confirm.json")
        if not os.path.exists(cf):
            print("not confirmed yet:", src); continue
        conf = json.load(open(cf))
        if not all(conf.values()):
            print("NOT kept (confirmation failed):", src, conf); continue
        dst = f"/verif/seeded/{p}-p{k}"
        os.makedirs(dst, exist_ok=True)
        shutil.copy(os.path.join(src, "patch.diff"), dst)
        for f in glob.glob(os.path.join(src, "*.rs")):
            shutil.copy(f, dst)
        caught, first = CAUGHT[f"{p}-p{k}"]
        meta.update({
            "breaks_property": p,
            "confirmed_in_scratch_worktree": conf,
            "what_was_run": f"tools/confirm_mutation.sh {src} (patch applies; cargo test --workspace with patch: 219 pass; demo fails with patch, passes without); tools/try_mutation.sh seeded/{p}-p{k}/patch.diff {p} quick",
            "caught_by": caught,
            "caught_by_first_version_of_the_checks": first,
        })
        json.dump(meta, open(os.path.join(dst, "meta.json"), "w"), indent=1)
        print("kept", dst)

# fourth round
for g in "ABCD":
    for k in (1,2,3,4):
        src = f"/tmp/mut4/{g}/out/q{k}"
        if not os.path.isdir(src): continue
        meta = json.load(open(os.path.join(src, "meta.json")))
        p = meta["property"]
        cf = os.path.join(src, "confirm.json")
        if not os.path.exists(cf):
            print("not confirmed / not kept:", src); continue
        conf = json.load(open(cf))
        if not all(conf.values()):
            print("NOT kept (confirmation failed):", src, conf); continue
        dst = f"/verif/seeded/{p}-q{k}"
        os.makedirs(dst, exist_ok=True)
        shutil.copy(os.path.join(src, "patch.diff"), dst)
        for f in glob.glob(os.path.join(src, "*.rs")):
            shutil.copy(f, dst)
        caught, first = CAUGHT[f"{p}-q{k}"]
        meta.update({
            "breaks_property": p,
            "confirmed_in_scratch_worktree": conf,
            "what_was_run": f"tools/confirm_mutation.sh {src} (patch applies; cargo test --workspace with patch: 219 pass; demo fails with patch, passes without); tools/try_mutation.sh seeded/{p}-q{k}/patch.diff {p} quick",
            "caught_by": caught,
            "caught_by_first_version_of_the_checks": first,
        })
        json.dump(meta, open(os.path.join(dst, "meta.json"), "w"), indent=1)
        print("kept", dst)
