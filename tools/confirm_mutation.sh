#!/bin/bash
# confirm_mutation.sh <prop> <k>: in the scratch worktree /tmp/mut/<prop>, confirm that
#   (1) the patch applies, (2) the existing suite passes with it,
#   (3) the demo fails with it, (4) the demo passes without it.
# Writes /tmp/mut/<prop>/out/m<k>/confirm.json
set -u
P="$1"; K="$2"
WT=/tmp/mut/$P; D=$WT/out/m$K
export RUSTUP_TOOLCHAIN=stable-x86_64-unknown-linux-gnu CARGO_NET_OFFLINE=true RUST_BACKTRACE=0
cd "$WT" || exit 2
git checkout -q -- . ; git clean -fdq -e out -e target
DEST=$(python3 -c "import json;print(json.load(open('$D/meta.json'))['demo_dest'])")
CMD=$(python3 -c "import json;print(json.load(open('$D/meta.json'))['demo_cmd'])")
DEMO=$(ls $D/*.rs | head -1)
applies=false; suite=false; demo_fails=false; demo_passes=false
cp "$DEMO" "$WT/$DEST"
# (4) demo passes without the patch
if (cd $WT && eval "$CMD") >$D/confirm_clean.log 2>&1; then demo_passes=true; fi
if git apply --check "$D/patch.diff" 2>/dev/null; then applies=true; git apply "$D/patch.diff"; fi
if $applies; then
  # (3) demo fails with the patch
  if (cd $WT && eval "$CMD") >$D/confirm_patched.log 2>&1; then demo_fails=false; else demo_fails=true; fi
  rm -f "$WT/$DEST"
  # (2) existing suite passes with the patch
  if cargo test --workspace --no-fail-fast --offline >$D/confirm_suite.log 2>&1; then suite=true; fi
fi
git checkout -q -- . ; git clean -fdq -e out -e target
echo "{\"applies\": $applies, \"existing_suite_passes_with_patch\": $suite, \"demo_fails_with_patch\": $demo_fails, \"demo_passes_without_patch\": $demo_passes}" > $D/confirm.json
cat $D/confirm.json
