#!/bin/bash
# confirm_mutation.sh <mutation dir>   (e.g. /tmp/mut/C01/out/m1): in the scratch worktree that
# contains it (<dir>/../..), confirm that
#   (1) the patch applies, (2) the existing suite passes with it,
#   (3) the demo fails with it, (4) the demo passes without it.
# Writes <dir>/confirm.json
set -u
if [ $# -ge 2 ]; then D="/tmp/mut/$1/out/m$2"; else D="$(cd "$1" && pwd)"; fi
WT="$(cd "$D/../.." && pwd)"
export RUSTUP_TOOLCHAIN=stable-x86_64-unknown-linux-gnu CARGO_NET_OFFLINE=true RUST_BACKTRACE=0
cd "$WT" || exit 2
git checkout -q -- . ; git clean -fdq -e out -e target
DEST=$(python3 -c "import json;print(json.load(open('$D/meta.json'))['demo_dest'])")
CMD=$(python3 -c "
import json,re
c=json.load(open('$D/meta.json'))['demo_cmd']
# the command runs inside the worktree already: drop a leading 'cd <somewhere> &&'
c=re.sub(r'^\s*cd\s+\S+\s*&&\s*','',c)
print(c)")
DEMO=$(ls $D/*.rs | head -1)
applies=false; suite=false; demo_fails=false; demo_passes=false
cp "$DEMO" "$WT/$DEST"
if (cd $WT && eval "$CMD") >$D/confirm_clean.log 2>&1; then demo_passes=true; fi
if git apply --check "$D/patch.diff" 2>/dev/null; then applies=true; git apply "$D/patch.diff"; fi
if $applies; then
  if (cd $WT && eval "$CMD") >$D/confirm_patched.log 2>&1; then demo_fails=false; else demo_fails=true; fi
  rm -f "$WT/$DEST"
  if cargo test --workspace --no-fail-fast --offline >$D/confirm_suite.log 2>&1; then suite=true; fi
fi
git checkout -q -- . ; git clean -fdq -e out -e target
echo "{\"applies\": $applies, \"existing_suite_passes_with_patch\": $suite, \"demo_fails_with_patch\": $demo_fails, \"demo_passes_without_patch\": $demo_passes}" > $D/confirm.json
cat $D/confirm.json
