#!/usr/bin/env python3
"""Regenerate /verif/MANIFEST.json. Edit IMPLEMENTED / texts here, not the JSON."""
import json, re, os, subprocess
ROOT = os.path.dirname(os.path.dirname(os.path.abspath(__file__)))
IMPLEMENTED = os.environ.get("IMPLEMENTED", "C01 C03 C04 C05 C06 C07 C09 C20").split()

design = open(os.path.join(ROOT, "DESIGN.md")).read()
na = {}
for m in re.finditer(r'^\| (C\d\d) \| (.+?) \|$', design, re.M):
    if m.group(1) in ('C02','C08','C10','C11','C12','C13','C14','C15','C16','C17','C18','C19'):
        na[m.group(1)] = m.group(2).strip()

TECH = "deterministic simulation with fault injection"
CHECKS = {
 "C01": dict(engine="memo-sim", cat="exploration", ref="DESIGN.md §5 C01",
   text="seeded search over interleavings of cooperative tasks at API-call granularity on shared threads (several live builders/decoders, derivations, env_clear, failed args/decodes, writer faults, thread stack sizes); oracle = round-trip identity plus parity with a reference execution of each task alone on a fresh thread; every violation is minimised to an explicit op list and replayed in a fresh process",
   note="trusted: the hand-written abstract values of the corpus types, the kernel (scheduler, replay), rustc/std; a clean batch is evidence, not proof; breadth of types is that of the corpus (~400 types)",
   tech=TECH+": seeded scheduler over API calls of tasks sharing a thread-local memo; reference execution on a fresh thread"),
 "C03": dict(engine="memo-sim", cat="exploration", ref="DESIGN.md §5 C03",
   text="the same histories as C01 plus typed-untyped encodes and SimWriter fault plans (short write, EINTR, write-zero/hard error at an offset, retry, repeated serialize); every message the real encoder returns Ok for is parsed by an independent reference decoder written from the spec and compared with harness-side type and abstract value",
   note="trusted: models/rd.rs as the definition of the binary grammar, hand-written sim_type()/av() of corpus types, kernel; untyped inference APIs (value_arg, to_bytes) are not judged",
   tech=TECH+": io::Write seam with seeded fault plans + builder call histories; oracle = reference wire decoder"),
 "C04": dict(engine="wire-sim", cat="exploration", ref="DESIGN.md §5 C04",
   text="simulated service lineage with upgrades gated by the real checker, clients pinned to old versions, messages in flight across upgrades on a simulated network with seeded delays and reordering, relays that decode and re-encode; every delivery between gate-approved versions must decode (untyped and native) to a value of the receiver's type and relayed values must be coherent",
   note="trusted: models (has_type, coherent, value generator), kernel; checks well-typedness and coherence, not equality with spec coercion (that would be C02)",
   tech=TECH+": discrete-event network between versioned parties; upgrade events gated by the real subtype checker"),
 "C05": dict(engine="gamma-sim", cat="exploration", ref="DESIGN.md §5 C05",
   text="seeded histories of queries over caller-held memos (order, sharing, retirement after failed queries, swallowed failing opt probes) on generated recursive environments and their mutated twins under renaming and permuted presentations, through all entry points incl. the text-level upgrade check; oracle = greatest fixed point of the spec rules; small environments have every two-query history enumerated",
   note="trusted: models/gfp.rs as the definition of the relation, the harness printer for text-level programs, kernel; OptReport::Error and class types are out of scope",
   tech=TECH+": seeded query histories over shared caller-held memos; oracle = GFP of the spec rules"),
 "C06": dict(engine="wire-sim (hostile mode)", cat="exploration", ref="DESIGN.md §5 C06",
   text="honest in-flight messages damaged by the simulated channel (truncate, flip, substitute, delete/duplicate span, splice, inflate a length) and Byzantine senders (cyclic/deep/zero-size type tables, huge counts, over-long LEB128) against native and untyped receivers under seeded stack size, quotas, table cap and error-message mode; worker processes make crashes (SIGSEGV/SIGABRT) first-class observations; a deterministic tick cap and a counting allocator bound work and memory when a quota is set",
   note="trusted: kernel (supervisor/worker journal, watchdog), the tick/probe hooks in /repo (feature verif-hooks), calibration constants with a wide margin; without a quota reaching the tick cap is inconclusive, never a violation",
   tech=TECH+": channel corruption and Byzantine sender, crash containment per worker process, deterministic work cap"),
 "C07": dict(engine="wire-sim (metered mode)", cat="fault_enumeration", ref="DESIGN.md §5 C07",
   text="for every honest delivery the abort point 'quota exhausted after k units' is enumerated over the whole range 0..cost+1 for both quotas (all points when cost <= 4000, else boundaries plus seeded points): result equals the unmetered one iff both quotas suffice, otherwise a quota error; reported cost is quota independent; lower/upper cost bounds from the documented model",
   note="trusted: harness-side value/skip counts and the transcription of the documented cost model; the message space itself is sampled",
   tech=TECH+": quota as an abort-point fault, enumerated per message"),
 "C09": dict(engine="stream-sim", cat="exploration", ref="DESIGN.md §5 C09",
   text="seeded fault-plan search over the Read/Write seams of the eight standalone codecs plus enumerated boundary families (all strings <=2 bytes quick / <=3 bytes thorough, every EOF/error offset of 6160 boundary strings); in-message decoders are workload-only",
   note="trusted: harness limb arithmetic (unit-tested), num-bigint decimal conversion, rustc/std; a clean batch is evidence, not proof",
   tech=TECH+" (SimReader/SimWriter seams, seeded and enumerated plans, replay files)"),
 "C20": dict(engine="entropy-sim", cat="fault_enumeration", ref="DESIGN.md §5 C20",
   text="the entropy stream handed to random::any is truncated at every prefix 0..n (and stuck at 00/FF/short periods) over generated recursive environments and a swarm of generator configurations; every returned value must inhabit the requested type (own typing judgement), annotate unchanged and encode; panics and worker deaths are violations",
   note="trusted: models (has_type), kernel; the environment/configuration space is sampled, the truncation points of each buffer are enumerated",
   tech=TECH+": entropy exhaustion as an end-of-stream fault, enumerated per buffer"),
}
PENDING = {k: f"claimed in DESIGN.md (engine {v['engine']}); its check is not registered in this commit yet" for k, v in CHECKS.items()}

checks = []
for pid in sorted(CHECKS):
    if pid not in IMPLEMENTED: continue
    c = CHECKS[pid]
    checks.append({
        "property_id": pid, "quick_cmd": f"./check {pid} quick", "thorough_cmd": f"./check {pid} thorough",
        "evidence_file": f"evidence/{pid}.json", "replay_cmd_template": "./check replay {path}", "engine": c["engine"],
        "level_claimed": {"category": c["cat"], "text": c["text"], "design_ref": c["ref"]},
        "level_note": c["note"], "technique": c["tech"],
    })
not_app = [{"property_id": k, "reason": v} for k, v in na.items()]
not_app += [{"property_id": k, "reason": v} for k, v in PENDING.items() if k not in IMPLEMENTED]
not_app.sort(key=lambda x: x["property_id"])

hooks_commits = []
try:
    out = subprocess.run(["git", "-C", "/repo", "log", "--format=%h %s"], capture_output=True, text=True).stdout
    hooks_commits = [l.split()[0] for l in out.splitlines() if l.split(" ", 1)[1].startswith("verif-hooks:")]
except Exception:
    pass
man = {
 "version": 1,
 "setup_cmd": "cd /verif/sim && RUSTUP_TOOLCHAIN=stable-x86_64-unknown-linux-gnu CARGO_NET_OFFLINE=true cargo build --offline",
 "hooks": {
   "guard": "cargo feature `verif-hooks` of crate candid (rust/candid/Cargo.toml), off by default and not part of `all`",
   "enable": "the harness crate /verif/sim depends on /repo/rust/candid by path with features [all, verif-hooks]" if hooks_commits else "no hook commit exists yet; the harness crate /verif/sim depends on /repo/rust/candid by path",
   "baseline_off_cmd": "cd /repo && RUSTUP_TOOLCHAIN=stable-x86_64-unknown-linux-gnu CARGO_NET_OFFLINE=true cargo test --workspace --no-fail-fast --offline",
   "source_commits": hooks_commits, "add_only": True},
 "engines": [
   {"name": "memo-sim", "path": "sim/src/engines/memo.rs", "serves_properties": ["C01", "C03"], "kind_free_text": "cooperative tasks interleaved at API-call granularity on shared threads, history faults, SimWriter"},
   {"name": "gamma-sim", "path": "sim/src/engines/gamma.rs", "serves_properties": ["C05"], "kind_free_text": "query histories over caller-held subtype memos, GFP oracle"},
   {"name": "wire-sim", "path": "sim/src/engines/wire.rs", "serves_properties": ["C04", "C06", "C07"], "kind_free_text": "versioned parties on a simulated network; hostile and metered modes"},
   {"name": "stream-sim", "path": "sim/src/engines/stream.rs", "serves_properties": ["C09"], "kind_free_text": "integer codecs behind SimReader/SimWriter"},
   {"name": "entropy-sim", "path": "sim/src/engines/entropy.rs", "serves_properties": ["C20"], "kind_free_text": "random value generator under entropy exhaustion"},
 ],
 "checks": checks,
 "not_applicable": not_app,
 "notes": "See DESIGN.md. ./check <id> quick|thorough; exit 0 held, 1 VIOLATION (replay file printed), 2 harness error. VERIF_SEED selects the seed (default 20260923). known-findings.txt lists repaired defects.",
}
man["engines"] = [e for e in man["engines"] if any(p in IMPLEMENTED for p in e["serves_properties"])]
json.dump(man, open(os.path.join(ROOT, "MANIFEST.json"), "w"), indent=1)
print("MANIFEST.json written:", [c["property_id"] for c in checks])
