#!/bin/bash
# run_all_seeded.sh [tier]: apply every kept seeded change to /repo in turn, run the check of the
# property it breaks, undo it. Prints one line per change. /repo must be clean.
TIER="${1:-quick}"
cd /verif || exit 2
for d in seeded/*/; do
  id=$(basename "$d"); prop=${id%%-*}
  patch="$d/patch.diff"; [ -f "$d/patch_rebased.diff" ] && patch="$d/patch_rebased.diff"
  out=$(tools/try_mutation.sh "$patch" "$prop" "$TIER" 2>&1)
  rc=$(echo "$out" | grep -o "^exit=[0-9]*" | head -1)
  inv=$(echo "$out" | grep "^violation" | sed -E 's/.*invariant=([^ ]+).*/\1/' | sort -u | tr '\n' ',' )
  echo "$id $rc ${inv:-NOT-CAUGHT}"
done
