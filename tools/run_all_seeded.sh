#!/bin/bash
# run_all_seeded.sh [tier]: run every kept seeded change through the check of the property it
# breaks, each applied to one shared scratch copy of /repo (never to /repo itself, see
# try_mutation.sh). Prints one line per change.
TIER="${1:-quick}"
cd "$(dirname "$0")/.." || exit 2
export SCRATCH="$(mktemp -d /var/tmp/candid-mut.XXXXXX)"
trap 'rm -rf "$SCRATCH"' EXIT INT TERM HUP
for d in seeded/*/; do
  id=$(basename "$d"); prop=${id%%-*}
  patch="$d/patch.diff"; [ -f "$d/patch_rebased.diff" ] && patch="$d/patch_rebased.diff"
  out=$(tools/try_mutation.sh "$patch" "$prop" "$TIER" 2>&1)
  rc=$(echo "$out" | grep -o "^exit=[0-9]*" | head -1)
  inv=$(echo "$out" | grep "^violation" | sed -E 's/.*invariant=([^ ]+).*/\1/' | sort -u | tr '\n' ',' )
  echo "$id $rc ${inv:-NOT-CAUGHT}"
done
